(* C09 (and C06 again) at the level of a whole bar: the same bar written in another consistent unit system
   - lengths x lam, forces x phi, so that distributed forces are x phi / lam, distributed moments x phi,
   concentrated forces x phi and concentrated moments x phi lam - is sliced at exactly the same positions
   t, its nodes sit at lam times the coordinates, and the external, left and right load of every node are the
   original ones converted as forces (x phi) and moments (x phi lam).  Own weight included.
   Stated with relations (values equal up to Qeq), so that it applies to any way of writing the converted
   numbers.  Model/Slice.v + Model/Loads.v over the translated lump_gen / own_weight_gen. *)
From Coq Require Import ZArith QArith Qabs List Bool Lia Lqa Setoid Morphisms Field Qfield.
From Inkfem Require Import Num.NumOps Gen.GenConsts Gen.GenLoads Model.Types Model.Slice Model.Loads
  Spec.Resultant Proofs.LoadsProofs.
Import ListNotations.
Local Open Scope Q_scope.
Local Infix "=t=" := tor_eq (at level 70, no associativity).

(* forces times f, moments times m *)
Definition dscale (f m : Q) (t : tor Q) : tor Q := (f * t_fx t, f * t_fy t, m * t_mz t).
Definition kof (f m : Q) (tm : term) : Q := match tm with MZ => m | _ => f end.

#[export] Instance dscale_proper f m : Proper (tor_eq ==> tor_eq) (dscale f m).
Proof. intros x y (H1 & H2 & H3). unfold tor_eq, dscale. cbn. rewrite H1, H2, H3. repeat split; reflexivity. Qed.
Lemma dscale_add f m x y : dscale f m (tor_add x y) =t= tor_add (dscale f m x) (dscale f m y).
Proof. unfold tor_eq, dscale, tor_add, t_fx, t_fy, t_mz. cbn. repeat split; ring. Qed.
Lemma dscale_0 f m : dscale f m tor0 =t= tor0.
Proof. unfold tor_eq, dscale, tor0, t_fx, t_fy, t_mz. cbn. repeat split; ring. Qed.

(* related loads: same kind, same place, value times the factor of its kind *)
(* sf ("same frame"): the two bars point in the same direction; when they do not (a turned bar) only loads given
   in the bar's own axes are related *)
Definition cl_rel (sf : Prop) (f m : Q) (l l' : cload Q) : Prop :=
  cl_term l' = cl_term l /\ cl_local l' = cl_local l /\ cl_t l' = cl_t l /\ cl_v l' == kof f m (cl_term l) * cl_v l /\
  (sf \/ cl_local l = true).
Definition dl_rel (sf : Prop) (f m : Q) (l l' : dload Q) : Prop :=
  dl_term l' = dl_term l /\ dl_local l' = dl_local l /\ dl_t0 l' = dl_t0 l /\ dl_t1 l' = dl_t1 l /\
  dl_v0 l' == kof f m (dl_term l) * dl_v0 l /\ dl_v1 l' == kof f m (dl_term l) * dl_v1 l /\ (sf \/ dl_local l = true).

(* ---- same slicing ---- *)
Lemma cpos_rel sf f m cl cl' : Forall2 (cl_rel sf f m) cl cl' -> cpos cl' = cpos cl.
Proof.
  unfold cpos. induction 1 as [|l l' cl cl' (_ & _ & Ht & _) _ IH]; [reflexivity|].
  cbn [filter]. rewrite Ht. destruct (negb (is_extreme (cl_t l))); cbn [map]; rewrite IH, ?Ht; reflexivity.
Qed.
Lemma dpos_rel sf f m dl dl' : Forall2 (dl_rel sf f m) dl dl' -> dpos dl' = dpos dl.
Proof.
  unfold dpos. induction 1 as [|l l' dl dl' (_ & _ & H0 & H1 & _) _ IH]; [reflexivity|].
  cbn [flat_map]. rewrite H0, H1, IH. reflexivity.
Qed.
Lemma positions_rel sf f m f' m' cl cl' dl dl' n : Forall2 (cl_rel sf f m) cl cl' -> Forall2 (dl_rel sf f' m') dl dl' ->
  slice_positions cl' dl' n = slice_positions cl dl n.
Proof. intros Hc Hd. unfold slice_positions, required_positions. rewrite (cpos_rel _ _ _ _ _ Hc), (dpos_rel _ _ _ _ _ Hd). reflexivity. Qed.

(* ---- loads convert ---- *)
Lemma term_tor_rel f m tm v v' : v' == kof f m tm * v -> term_tor tm v' =t= dscale f m (term_tor tm v).
Proof. intros H. destruct tm; unfold tor_eq, dscale, term_tor, kof, t_fx, t_fy, t_mz in *; cbn in *; repeat split; try ring; exact H. Qed.
Lemma to_local_dscale f m c s t : to_local c s (dscale f m t) =t= dscale f m (to_local c s t).
Proof. unfold tor_eq, dscale, to_local, t_fx, t_fy, t_mz. cbn. repeat split; ring. Qed.
#[export] Instance to_local_proper' c s : Proper (tor_eq ==> tor_eq) (to_local (F:=Q) c s).
Proof. intros x y (H1 & H2 & H3). unfold tor_eq, to_local, t_fx, t_fy, t_mz in *. cbn in *. rewrite H1, H2, H3. repeat split; reflexivity. Qed.

Lemma to_local_frame c s c' s' t : c' == c -> s' == s -> to_local c' s' t =t= to_local c s t.
Proof. intros Hc Hs. unfold tor_eq, to_local, t_fx, t_fy, t_mz. cbn. rewrite Hc, Hs. repeat split; reflexivity. Qed.

Lemma cl_local_tor_rel (sf : Prop) f m c s c' s' l l' : (sf -> c' == c /\ s' == s) -> cl_rel sf f m l l' ->
  cl_local_tor c' s' l' =t= dscale f m (cl_local_tor c s l).
Proof.
  intros Hsf (Ht & Hl & _ & Hv & Hloc). unfold cl_local_tor. rewrite Ht, Hl.
  assert (E : term_tor (cl_term l) (cl_v l') =t= dscale f m (term_tor (cl_term l) (cl_v l))) by (apply term_tor_rel; exact Hv).
  destruct (cl_local l); [exact E|].
  destruct Hloc as [Hs | Hl']; [| discriminate]. destruct (Hsf Hs) as (Hc & Hs').
  rewrite (to_local_frame c s c' s' _ Hc Hs'). rewrite E. apply to_local_dscale.
Qed.

Lemma ext_fold_rel (sf : Prop) f m c s c' s' t : (sf -> c' == c /\ s' == s) ->
  forall cl cl', Forall2 (cl_rel sf f m) cl cl' -> forall acc acc', acc' =t= dscale f m acc ->
  fold_left (fun ac l => if teq t (cl_t l) then tor_add ac (cl_local_tor c' s' l) else ac) cl' acc'
  =t= dscale f m (fold_left (fun ac l => if teq t (cl_t l) then tor_add ac (cl_local_tor c s l) else ac) cl acc).
Proof.
  intros Hsf. induction 1 as [|l l' cl cl' Hl _ IH]; intros acc acc' H; [exact H|]. cbn [fold_left]. apply IH.
  pose proof Hl as (_ & _ & Hp & _). rewrite Hp. destruct (teq t (cl_t l)); [| exact H].
  etransitivity; [| symmetry; apply dscale_add]. apply tor_add_proper; [exact H | apply (cl_local_tor_rel sf); assumption].
Qed.

Lemma dl_value_at_rel sf f m l l' t : dl_rel sf f m l l' -> dl_value_at l' t == kof f m (dl_term l) * dl_value_at l t.
Proof.
  intros (_ & _ & H0 & H1 & Hv0 & Hv1 & _). unfold dl_value_at. rewrite H0, H1.
  destruct ((nltb t (dl_t0 l) && negb (teq t (dl_t0 l))) || (nltb (dl_t1 l) t && negb (teq t (dl_t1 l)))).
  - cbn [n0 QOps]. ring.
  - cbn [nadd nsub nmul ndiv QOps]. rewrite Hv0, Hv1. unfold Qdiv. ring.
Qed.

Lemma dl_tor_at_rel (sf : Prop) f m c s c' s' l l' t : (sf -> c' == c /\ s' == s) -> dl_rel sf f m l l' ->
  dl_tor_at c' s' l' t =t= dscale f m (dl_tor_at c s l t).
Proof.
  intros Hsf H. pose proof (dl_value_at_rel sf f m l l' t H) as Hv. destruct H as (Ht & Hl & _ & _ & _ & _ & Hloc).
  unfold dl_tor_at. rewrite Ht, Hl.
  assert (E : term_tor (dl_term l) (dl_value_at l' t) =t= dscale f m (term_tor (dl_term l) (dl_value_at l t))) by (apply term_tor_rel; exact Hv).
  destruct (dl_local l); [exact E|].
  destruct Hloc as [Hs | Hl']; [| discriminate]. destruct (Hsf Hs) as (Hc & Hs').
  rewrite (to_local_frame c s c' s' _ Hc Hs'). rewrite E. apply to_local_dscale.
Qed.

(* the translated kernel: intensities (forces x f, moments x m) over a length x lam, with m = f lam:
   nodal forces x f lam, nodal moments x m lam *)
Lemma lump_gen_units lam f m s1 s2 s3 e1 e2 e3 s1' s2' s3' e1' e2' e3' len len' :
  ~ lam == 0 -> m == f * lam -> len' == lam * len ->
  s1' == f * s1 -> s2' == f * s2 -> s3' == m * s3 -> e1' == f * e1 -> e2' == f * e2 -> e3' == m * e3 ->
  fst (lump_gen (O:=QOps) s1' s2' s3' e1' e2' e3' len') =t= dscale (f * lam) (m * lam) (fst (lump_gen (O:=QOps) s1 s2 s3 e1 e2 e3 len)) /\
  snd (lump_gen (O:=QOps) s1' s2' s3' e1' e2' e3' len') =t= dscale (f * lam) (m * lam) (snd (lump_gen (O:=QOps) s1 s2 s3 e1 e2 e3 len)).
Proof.
  intros Hlam Hm Hlen H1 H2 H3 H4 H5 H6.
  unfold lump_gen, tor_eq, dscale, t_fx, t_fy, t_mz. cbn.
  rewrite H1, H2, H3, H4, H5, H6, Hlen, Hm.
  destruct (Qeq_dec len 0) as [Z | NZ].
  - rewrite Z. unfold Qdiv. repeat split; ring.
  - repeat split; field; split; assumption.
Qed.

(* a similarity of the plane: x' = lam (cr x - sr y) + dx, y' = lam (sr x + cr y) + dy, with cr^2 + sr^2 = 1 *)
Lemma point_at_rel lam cr sr dx dy (b b' : bar Q) t :
  b_x1 b' == lam * (cr * b_x1 b - sr * b_y1 b) + dx -> b_y1 b' == lam * (sr * b_x1 b + cr * b_y1 b) + dy ->
  b_x2 b' == lam * (cr * b_x2 b - sr * b_y2 b) + dx -> b_y2 b' == lam * (sr * b_x2 b + cr * b_y2 b) + dy ->
  fst (point_at b' t) == lam * (cr * fst (point_at b t) - sr * snd (point_at b t)) + dx /\
  snd (point_at b' t) == lam * (sr * fst (point_at b t) + cr * snd (point_at b t)) + dy.
Proof.
  intros X1 Y1 X2 Y2. unfold point_at. cbn [fst snd nadd nsub nmul ndiv n0 n1 QOps]. rewrite X1, Y1, X2, Y2.
  split; field; discriminate.
Qed.

(* ---- two descriptions of one bar: other units (lam, f, m), another place (dx, dy), turned by (cr, sr) ---- *)
Record bar_rel (lam cr sr dx dy f m : Q) (b b' : bar Q) : Prop := {
  br_l1 : b_l1 b' = b_l1 b; br_l2 : b_l2 b' = b_l2 b;
  br_c : b_c b' == cr * b_c b - sr * b_s b; br_s : b_s b' == sr * b_c b + cr * b_s b;
  br_x1 : b_x1 b' == lam * (cr * b_x1 b - sr * b_y1 b) + dx; br_y1 : b_y1 b' == lam * (sr * b_x1 b + cr * b_y1 b) + dy;
  br_x2 : b_x2 b' == lam * (cr * b_x2 b - sr * b_y2 b) + dx; br_y2 : b_y2 b' == lam * (sr * b_x2 b + cr * b_y2 b) + dy;
  br_cl : Forall2 (cl_rel (cr == 1 /\ sr == 0) (f * lam) (m * lam)) (b_cl b) (b_cl b');
  br_dl : Forall2 (dl_rel (cr == 1 /\ sr == 0) f m) (b_dl b) (b_dl b');
  br_w : own_weight_gen (O:=QOps) (b_rho b') (b_A b') == f * own_weight_gen (O:=QOps) (b_rho b) (b_A b) }.

Lemma same_frame lam cr sr dx dy f m b b' : bar_rel lam cr sr dx dy f m b b' -> cr == 1 /\ sr == 0 -> b_c b' == b_c b /\ b_s b' == b_s b.
Proof. intros R (H1 & H0). rewrite (br_c _ _ _ _ _ _ _ _ _ R), (br_s _ _ _ _ _ _ _ _ _ R), H1, H0. split; ring. Qed.

Lemma slice_len_rel lam cr sr dx dy f m b b' ta tb : cr * cr + sr * sr == 1 -> bar_rel lam cr sr dx dy f m b b' ->
  Loads.slice_len b' ta tb == lam * Loads.slice_len b ta tb.
Proof.
  intros Hu R. unfold Loads.slice_len. rewrite (br_c _ _ _ _ _ _ _ _ _ R), (br_s _ _ _ _ _ _ _ _ _ R).
  destruct (point_at_rel lam cr sr dx dy b b' ta (br_x1 _ _ _ _ _ _ _ _ _ R) (br_y1 _ _ _ _ _ _ _ _ _ R) (br_x2 _ _ _ _ _ _ _ _ _ R) (br_y2 _ _ _ _ _ _ _ _ _ R)) as (A1 & A2).
  destruct (point_at_rel lam cr sr dx dy b b' tb (br_x1 _ _ _ _ _ _ _ _ _ R) (br_y1 _ _ _ _ _ _ _ _ _ R) (br_x2 _ _ _ _ _ _ _ _ _ R) (br_y2 _ _ _ _ _ _ _ _ _ R)) as (B1 & B2).
  cbv zeta. cbn [nadd nsub nmul QOps]. rewrite A1, A2, B1, B2.
  set (ax := fst (point_at b ta)). set (ay := snd (point_at b ta)). set (bx := fst (point_at b tb)). set (by_ := snd (point_at b tb)).
  transitivity (lam * ((cr * cr + sr * sr) * (b_c b * (bx - ax) + b_s b * (by_ - ay)))); [ring | rewrite Hu; ring].
Qed.

Lemma in_span_rel sf f m l l' ta tb : dl_rel sf f m l l' -> in_span l' ta tb = in_span l ta tb.
Proof. intros (_ & _ & H0 & H1 & _). unfold in_span. rewrite H0, H1. reflexivity. Qed.

Section Units.
Variables lam cr sr dx dy f m : Q.
Hypothesis Hlam : ~ lam == 0.
Hypothesis Hm : m == f * lam.
Hypothesis Hu : cr * cr + sr * sr == 1.
Let FF := f * lam.
Let MM := m * lam.
Let SF : Prop := cr == 1 /\ sr == 0.
Notation BR := (bar_rel lam cr sr dx dy f m).

Lemma dl_lump_rel b b' l l' ta tb : BR b b' -> dl_rel SF f m l l' ->
  fst (dl_lump b' l' ta tb) =t= dscale FF MM (fst (dl_lump b l ta tb)) /\
  snd (dl_lump b' l' ta tb) =t= dscale FF MM (snd (dl_lump b l ta tb)).
Proof.
  intros R Hl. unfold dl_lump. rewrite (in_span_rel SF f m l l' ta tb Hl).
  destruct (in_span l ta tb).
  - cbv zeta.
    destruct (dl_tor_at_rel SF f m (b_c b) (b_s b) (b_c b') (b_s b') l l' ta (same_frame _ _ _ _ _ _ _ _ _ R) Hl) as (A1 & A2 & A3).
    destruct (dl_tor_at_rel SF f m (b_c b) (b_s b) (b_c b') (b_s b') l l' tb (same_frame _ _ _ _ _ _ _ _ _ R) Hl) as (B1 & B2 & B3).
    unfold dscale, t_fx, t_fy, t_mz in A1, A2, A3, B1, B2, B3. cbn [fst snd] in A1, A2, A3, B1, B2, B3.
    apply (lump_gen_units lam f m); try assumption.
    apply slice_len_rel with (cr := cr) (sr := sr) (dx := dx) (dy := dy) (f := f) (m := m); assumption.
  - cbn [fst snd]. split; symmetry; apply dscale_0.
Qed.

Lemma slice_lumps_rel b b' ta tb : BR b b' -> forall dl dl', Forall2 (dl_rel SF f m) dl dl' ->
  fst (slice_lumps b' dl' ta tb) =t= dscale FF MM (fst (slice_lumps b dl ta tb)) /\
  snd (slice_lumps b' dl' ta tb) =t= dscale FF MM (snd (slice_lumps b dl ta tb)).
Proof.
  intros R. unfold slice_lumps.
  assert (G : forall dl dl', Forall2 (dl_rel SF f m) dl dl' -> forall acc acc',
    fst acc' =t= dscale FF MM (fst acc) -> snd acc' =t= dscale FF MM (snd acc) ->
    let r' := fold_left (fun ac l => let p := dl_lump b' l ta tb in (tor_add (fst ac) (fst p), tor_add (snd ac) (snd p))) dl' acc' in
    let r := fold_left (fun ac l => let p := dl_lump b l ta tb in (tor_add (fst ac) (fst p), tor_add (snd ac) (snd p))) dl acc in
    fst r' =t= dscale FF MM (fst r) /\ snd r' =t= dscale FF MM (snd r)).
  { induction 1 as [|l l' dl dl' Hl _ IH]; intros acc acc' H1 H2; [split; assumption|]. cbn [fold_left].
    apply IH; cbn [fst snd]; destruct (dl_lump_rel b b' l l' ta tb R Hl) as (L1 & L2).
    - etransitivity; [| symmetry; apply dscale_add]. apply tor_add_proper; [exact H1 | exact L1].
    - etransitivity; [| symmetry; apply dscale_add]. apply tor_add_proper; [exact H2 | exact L2]. }
  intros dl dl' Hd. apply G; [exact Hd | |]; cbn [fst snd]; symmetry; apply dscale_0.
Qed.

(* slice nodes: same t, coordinates mapped by the similarity, loads (in the bar's own axes) converted *)
Definition node_rel (n n' : pnode Q) : Prop :=
  pn_t n' = pn_t n /\ pn_x n' == lam * (cr * pn_x n - sr * pn_y n) + dx /\ pn_y n' == lam * (sr * pn_x n + cr * pn_y n) + dy /\
  pn_ext n' =t= dscale FF MM (pn_ext n) /\ pn_left n' =t= dscale FF MM (pn_left n) /\ pn_right n' =t= dscale FF MM (pn_right n).

Lemma add_left_rel n n' t t' : node_rel n n' -> t' =t= dscale FF MM t -> node_rel (add_left n t) (add_left n' t').
Proof.
  intros (H1 & H2 & H3 & H4 & H5 & H6) Ht. unfold node_rel, add_left. cbn [pn_t pn_x pn_y pn_ext pn_left pn_right].
  split; [exact H1|]. split; [exact H2|]. split; [exact H3|]. split; [exact H4|]. split; [| exact H6].
  etransitivity; [| symmetry; apply dscale_add]. apply tor_add_proper; assumption.
Qed.
Lemma add_right_rel n n' t t' : node_rel n n' -> t' =t= dscale FF MM t -> node_rel (add_right n t) (add_right n' t').
Proof.
  intros (H1 & H2 & H3 & H4 & H5 & H6) Ht. unfold node_rel, add_right. cbn [pn_t pn_x pn_y pn_ext pn_left pn_right].
  split; [exact H1|]. split; [exact H2|]. split; [exact H3|]. split; [exact H4|]. split; [exact H5|].
  etransitivity; [| symmetry; apply dscale_add]. apply tor_add_proper; assumption.
Qed.

Lemma apply_dist_from_rel b b' dl dl' : BR b b' -> Forall2 (dl_rel SF f m) dl dl' ->
  forall rest rest' n n', node_rel n n' -> Forall2 node_rel rest rest' ->
  Forall2 node_rel (apply_dist_from b dl n rest) (apply_dist_from b' dl' n' rest').
Proof.
  intros R Hd. induction rest as [|c rest IH]; intros rest' n n' Hn Hr; inversion Hr as [|? c' ? rest'' Hc Hr']; subst; cbn [apply_dist_from].
  - constructor; [exact Hn | constructor].
  - destruct Hn as (T1 & Hn'). destruct Hc as (T2 & Hc').
    rewrite T1, T2.
    destruct (slice_lumps_rel b b' (pn_t n) (pn_t c) R dl dl' Hd) as (L1 & L2).
    constructor.
    + apply add_left_rel; [split; assumption | exact L1].
    + apply IH; [apply add_right_rel; [split; assumption | exact L2] | exact Hr'].
Qed.

Lemma mk_node_rel b b' t e e' : BR b b' -> e' =t= dscale FF MM e -> node_rel (mk_node b t e) (mk_node b' t e').
Proof.
  intros R H. unfold node_rel, mk_node. cbn [pn_t pn_x pn_y pn_ext pn_left pn_right].
  destruct (point_at_rel lam cr sr dx dy b b' t (br_x1 _ _ _ _ _ _ _ _ _ R) (br_y1 _ _ _ _ _ _ _ _ _ R) (br_x2 _ _ _ _ _ _ _ _ _ R) (br_y2 _ _ _ _ _ _ _ _ _ R)) as (P1 & P2).
  split; [reflexivity|]. split; [exact P1|]. split; [exact P2|]. split; [exact H|]. split; symmetry; apply dscale_0.
Qed.

Lemma ext_at_rel b b' t : BR b b' -> ext_at b' t =t= dscale FF MM (ext_at b t).
Proof.
  intros R. unfold ext_at.
  apply (ext_fold_rel SF); [exact (same_frame _ _ _ _ _ _ _ _ _ R) | exact (br_cl _ _ _ _ _ _ _ _ _ R) | symmetry; apply dscale_0].
Qed.

Lemma axial_end_load_rel b b' s : BR b b' -> axial_end_load b' s =t= dscale FF MM (axial_end_load b s).
Proof.
  intros R. unfold axial_end_load.
  assert (G : forall cl cl', Forall2 (cl_rel SF FF MM) cl cl' -> forall acc acc', acc' =t= dscale FF MM acc ->
     fold_left (fun ac l => let t := cl_local_tor (b_c b') (b_s b') l in
                 let hit := if s then is_min (cl_t l) else negb (is_min (cl_t l)) && is_max (cl_t l) in
                 if hit then ((t_fx ac + t_fx t)%num, (t_fy ac + t_fy t)%num, n0) else ac) cl' acc'
     =t= dscale FF MM (fold_left (fun ac l => let t := cl_local_tor (b_c b) (b_s b) l in
                 let hit := if s then is_min (cl_t l) else negb (is_min (cl_t l)) && is_max (cl_t l) in
                 if hit then ((t_fx ac + t_fx t)%num, (t_fy ac + t_fy t)%num, n0) else ac) cl acc)).
  { induction 1 as [|l l' cl cl' Hl _ IH]; intros acc acc' H; [exact H|]. cbn [fold_left]. apply IH. cbv zeta.
    pose proof (cl_local_tor_rel SF FF MM (b_c b) (b_s b) (b_c b') (b_s b') l l' (same_frame _ _ _ _ _ _ _ _ _ R) Hl) as (C1 & C2 & _).
    destruct Hl as (_ & _ & Hp & _). rewrite Hp.
    destruct (if s then is_min (cl_t l) else negb (is_min (cl_t l)) && is_max (cl_t l)); [| exact H].
    destruct H as (H1 & H2 & _).
    unfold tor_eq, dscale, t_fx, t_fy, t_mz in *. cbn [fst snd nadd n0 QOps] in *. rewrite C1, C2, H1, H2. repeat split; ring. }
  apply G; [exact (br_cl _ _ _ _ _ _ _ _ _ R) | symmetry; apply dscale_0].
Qed.

Lemma is_axial_rel b b' : BR b b' -> is_axial b' = is_axial b.
Proof.
  intros R. unfold is_axial. rewrite (br_l1 _ _ _ _ _ _ _ _ _ R), (br_l2 _ _ _ _ _ _ _ _ _ R).
  pose proof (br_dl _ _ _ _ _ _ _ _ _ R) as Hd. pose proof (br_cl _ _ _ _ _ _ _ _ _ R) as Hc.
  assert (E : forallb (fun l => cl_nodal l && negb (term_eqb (cl_term l) MZ)) (b_cl b')
              = forallb (fun l => cl_nodal l && negb (term_eqb (cl_term l) MZ)) (b_cl b)).
  { induction Hc as [|l l' cl cl' (Ht & _ & Hp & _) _ IH]; [reflexivity|].
    cbn [forallb]. rewrite IH. unfold cl_nodal. rewrite Ht, Hp. reflexivity. }
  destruct Hd; [| reflexivity]. rewrite E. reflexivity.
Qed.
Lemma has_loads_rel b b' : BR b b' -> has_loads b' = has_loads b.
Proof.
  intros R. unfold has_loads. pose proof (br_dl _ _ _ _ _ _ _ _ _ R) as Hd. pose proof (br_cl _ _ _ _ _ _ _ _ _ R) as Hc.
  destruct Hc, Hd; reflexivity.
Qed.

(* THEOREM: the second description is sliced alike and carries the converted loads *)
Theorem slice_bar_units b b' : BR b b' -> Forall2 node_rel (slice_bar b) (slice_bar b').
Proof.
  intros R. unfold slice_bar. rewrite (is_axial_rel b b' R), (has_loads_rel b b' R).
  destruct (is_axial b).
  - destruct (has_loads b).
    + constructor; [apply mk_node_rel; [exact R | apply axial_end_load_rel; exact R]
                   | constructor; [apply mk_node_rel; [exact R | apply axial_end_load_rel; exact R] | constructor]].
    + constructor; [apply mk_node_rel; [exact R | symmetry; apply dscale_0]
                   | constructor; [apply mk_node_rel; [exact R | symmetry; apply dscale_0] | constructor]].
  - destruct (has_loads b).
    + rewrite (positions_rel _ _ _ _ _ _ _ _ _ c_slices_loaded (br_cl _ _ _ _ _ _ _ _ _ R) (br_dl _ _ _ _ _ _ _ _ _ R)).
      unfold apply_dist.
      induction (slice_positions (b_cl b) (b_dl b) c_slices_loaded) as [|t ts _]; [constructor|].
      cbn [map]. apply apply_dist_from_rel; [exact R | exact (br_dl _ _ _ _ _ _ _ _ _ R) | apply mk_node_rel; [exact R | apply ext_at_rel; exact R] |].
      induction ts as [|t' ts IH]; cbn [map]; constructor; [apply mk_node_rel; [exact R | apply ext_at_rel; exact R] | exact IH].
    + induction (uniform c_slices_unloaded) as [|t ts IH]; cbn [map]; constructor; [apply mk_node_rel; [exact R | symmetry; apply dscale_0] | exact IH].
Qed.

(* own weight: one more global FY load over the whole span, of intensity own_weight_gen rho A; gravity does not turn
   with the bar, so this needs the same frame *)
Lemma with_own_weight_rel b b' : SF -> BR b b' -> BR (with_own_weight b) (with_own_weight b').
Proof.
  intros Hsf R. constructor; cbn [with_own_weight b_l1 b_l2 b_c b_s b_x1 b_y1 b_x2 b_y2 b_cl b_dl b_rho b_A]; try apply R.
  apply Forall2_app; [apply R|]. constructor; [| constructor].
  unfold dl_rel, own_weight_load. cbn [dl_term dl_local dl_t0 dl_t1 dl_v0 dl_v1 kof].
  repeat split; try reflexivity; try apply R. left. exact Hsf.
Qed.

Theorem preprocess_bar_units w b b' : (w = true -> SF) -> BR b b' -> Forall2 node_rel (preprocess_bar w b) (preprocess_bar w b').
Proof.
  intros Hw R. unfold preprocess_bar. destruct w; apply slice_bar_units; [apply with_own_weight_rel; [apply Hw; reflexivity | exact R] | exact R].
Qed.

End Units.

Lemma Forall2_weaken {A B} (P Q : A -> B -> Prop) l l' : (forall x y, P x y -> Q x y) -> Forall2 P l l' -> Forall2 Q l l'.
Proof. intros H. induction 1; constructor; auto. Qed.
Lemma Forall2_same_length {A B} (P : A -> B -> Prop) l l' : Forall2 P l l' -> length l = length l'.
Proof. induction 1; cbn; congruence. Qed.
Lemma Forall2_refl {A} (P : A -> A -> Prop) (l : list A) : (forall x, P x x) -> Forall2 P l l.
Proof. intros H. induction l; constructor; auto. Qed.
Lemma dscale_ext f m f' m' t : f == f' -> m == m' -> dscale f m t =t= dscale f' m' t.
Proof. intros H1 H2. unfold tor_eq, dscale, t_fx, t_fy, t_mz. cbn. rewrite H1, H2. repeat split; reflexivity. Qed.
Lemma dscale_1 t : dscale (1 * 1) (1 * 1) t =t= t.
Proof. unfold tor_eq, dscale, t_fx, t_fy, t_mz. cbn. repeat split; ring. Qed.

(* ---- the conversion written out: lengths x lam, forces x phi ---- *)
Definition units_cl (lam phi : Q) (l : cload Q) : cload Q :=
  {| cl_term := cl_term l; cl_local := cl_local l; cl_t := cl_t l; cl_v := kof phi (phi * lam) (cl_term l) * cl_v l |}.
Definition units_dl (lam phi : Q) (l : dload Q) : dload Q :=
  {| dl_term := dl_term l; dl_local := dl_local l; dl_t0 := dl_t0 l; dl_v0 := kof (phi / lam) phi (dl_term l) * dl_v0 l;
     dl_t1 := dl_t1 l; dl_v1 := kof (phi / lam) phi (dl_term l) * dl_v1 l |}.
Definition units_bar (lam phi : Q) (b : bar Q) : bar Q :=
  {| b_n1 := b_n1 b; b_n2 := b_n2 b; b_l1 := b_l1 b; b_l2 := b_l2 b;
     b_x1 := lam * b_x1 b; b_y1 := lam * b_y1 b; b_x2 := lam * b_x2 b; b_y2 := lam * b_y2 b; b_L := lam * b_L b; b_c := b_c b; b_s := b_s b;
     b_E := b_E b * phi / (lam * lam); b_A := lam * lam * b_A b; b_I := lam * lam * lam * lam * b_I b; b_S := lam * lam * lam * b_S b;
     b_rho := b_rho b * phi / (lam * lam * lam);
     b_cl := map (units_cl lam phi) (b_cl b); b_dl := map (units_dl lam phi) (b_dl b) |}.

Lemma sf_id : 1 == 1 /\ 0 == 0.
Proof. split; reflexivity. Qed.

Lemma units_bar_rel lam phi b : ~ lam == 0 -> bar_rel lam 1 0 0 0 (phi / lam) phi b (units_bar lam phi b).
Proof.
  intros Hlam. constructor; cbn [units_bar b_l1 b_l2 b_c b_s b_x1 b_y1 b_x2 b_y2 b_cl b_dl b_rho b_A]; try reflexivity; try ring.
  - induction (b_cl b) as [|l cl IH]; cbn [map]; constructor; [| exact IH].
    unfold cl_rel, units_cl. cbn [cl_term cl_local cl_t cl_v]. repeat split; try (left; exact sf_id).
    destruct (cl_term l); cbn [kof]; field; exact Hlam.
  - induction (b_dl b) as [|l dl IH]; cbn [map]; constructor; [| exact IH].
    unfold dl_rel, units_dl. cbn [dl_term dl_local dl_t0 dl_t1 dl_v0 dl_v1]. repeat split; try reflexivity; left; exact sf_id.
  - unfold own_weight_gen. cbn [nmul nopp QOps]. field. exact Hlam.
Qed.

(* THEOREM (C09, whole bar): in the other unit system the bar is cut at the same positions, its nodes are at
   lam times the coordinates, and every nodal load is the original one converted: forces x phi, moments x phi lam *)
Theorem bar_in_other_units (lam phi : Q) (w : bool) (b : bar Q) : ~ lam == 0 ->
  Forall2 (fun n n' => pn_t n' = pn_t n /\ pn_x n' == lam * pn_x n /\ pn_y n' == lam * pn_y n /\
                       pn_ext n' =t= dscale phi (phi * lam) (pn_ext n) /\ pn_left n' =t= dscale phi (phi * lam) (pn_left n) /\
                       pn_right n' =t= dscale phi (phi * lam) (pn_right n))
          (preprocess_bar w b) (preprocess_bar w (units_bar lam phi b)).
Proof.
  intros Hlam.
  assert (Hm : phi == phi / lam * lam) by (field; exact Hlam).
  assert (Hu : 1 * 1 + 0 * 0 == 1) by ring.
  pose proof (preprocess_bar_units lam 1 0 0 0 (phi / lam) phi Hlam Hm Hu w b (units_bar lam phi b) (fun _ => sf_id) (units_bar_rel lam phi b Hlam)) as H.
  eapply Forall2_weaken; [| exact H].
  intros n n' (H1 & H2 & H3 & H4 & H5 & H6).
  assert (E : forall t, dscale (phi / lam * lam) (phi * lam) t =t= dscale phi (phi * lam) t)
    by (intro t; apply dscale_ext; [symmetry; exact Hm | reflexivity]).
  split; [exact H1|]. split; [rewrite H2; ring|]. split; [rewrite H3; ring|].
  split; [etransitivity; [exact H4 | apply E]|]. split; [etransitivity; [exact H5 | apply E] | etransitivity; [exact H6 | apply E]].
Qed.

Corollary same_number_of_nodes lam phi w b : ~ lam == 0 ->
  length (preprocess_bar w (units_bar lam phi b)) = length (preprocess_bar w b).
Proof. intros H. symmetry. eapply Forall2_same_length. apply (bar_in_other_units lam phi w b H). Qed.

(* ---- the same bar somewhere else (C07): every coordinate shifted by (dx, dy), nothing else touched ---- *)
Definition moved_bar (dx dy : Q) (b : bar Q) : bar Q :=
  {| b_n1 := b_n1 b; b_n2 := b_n2 b; b_l1 := b_l1 b; b_l2 := b_l2 b;
     b_x1 := b_x1 b + dx; b_y1 := b_y1 b + dy; b_x2 := b_x2 b + dx; b_y2 := b_y2 b + dy; b_L := b_L b; b_c := b_c b; b_s := b_s b;
     b_E := b_E b; b_A := b_A b; b_I := b_I b; b_S := b_S b; b_rho := b_rho b; b_cl := b_cl b; b_dl := b_dl b |}.

Lemma moved_bar_rel dx dy b : bar_rel 1 1 0 dx dy 1 1 b (moved_bar dx dy b).
Proof.
  constructor; cbn [moved_bar b_l1 b_l2 b_c b_s b_x1 b_y1 b_x2 b_y2 b_cl b_dl b_rho b_A]; try reflexivity; try ring.
  - apply Forall2_refl. intros l. unfold cl_rel. repeat split; try (left; exact sf_id). destruct (cl_term l); cbn [kof]; ring.
  - apply Forall2_refl. intros l. unfold dl_rel. repeat split; try (left; exact sf_id); destruct (dl_term l); cbn [kof]; ring.
Qed.

(* THEOREM (C07, whole bar): moved by any translation the bar is cut at the same positions, its nodes move along,
   and every nodal load is what it was; own weight included *)
Theorem moved_bar_is_sliced_alike (dx dy : Q) (w : bool) (b : bar Q) :
  Forall2 (fun n n' => pn_t n' = pn_t n /\ pn_x n' == pn_x n + dx /\ pn_y n' == pn_y n + dy /\
                       pn_ext n' =t= pn_ext n /\ pn_left n' =t= pn_left n /\ pn_right n' =t= pn_right n)
          (preprocess_bar w b) (preprocess_bar w (moved_bar dx dy b)).
Proof.
  assert (H1 : ~ 1 == 0) by discriminate. assert (Hm : 1 == 1 * 1) by ring. assert (Hu : 1 * 1 + 0 * 0 == 1) by ring.
  pose proof (preprocess_bar_units 1 1 0 dx dy 1 1 H1 Hm Hu w b (moved_bar dx dy b) (fun _ => sf_id) (moved_bar_rel dx dy b)) as H.
  eapply Forall2_weaken; [| exact H].
  intros n n' (A1 & A2 & A3 & A4 & A5 & A6).
  split; [exact A1|]. split; [rewrite A2; ring|]. split; [rewrite A3; ring|].
  split; [etransitivity; [exact A4 | apply dscale_1]|]. split; [etransitivity; [exact A5 | apply dscale_1] | etransitivity; [exact A6 | apply dscale_1]].
Qed.

(* ---- the same bar turned about the origin by the angle with cosine cr and sine sr (C07): its loads are given in its
   own axes and turn with it ---- *)
Definition turned_bar (cr sr : Q) (b : bar Q) : bar Q :=
  {| b_n1 := b_n1 b; b_n2 := b_n2 b; b_l1 := b_l1 b; b_l2 := b_l2 b;
     b_x1 := cr * b_x1 b - sr * b_y1 b; b_y1 := sr * b_x1 b + cr * b_y1 b; b_x2 := cr * b_x2 b - sr * b_y2 b; b_y2 := sr * b_x2 b + cr * b_y2 b;
     b_L := b_L b; b_c := cr * b_c b - sr * b_s b; b_s := sr * b_c b + cr * b_s b;
     b_E := b_E b; b_A := b_A b; b_I := b_I b; b_S := b_S b; b_rho := b_rho b; b_cl := b_cl b; b_dl := b_dl b |}.
Definition own_axes_only (b : bar Q) : bool := forallb (@cl_local Q) (b_cl b) && forallb (@dl_local Q) (b_dl b).

Lemma turned_bar_rel cr sr b : own_axes_only b = true -> bar_rel 1 cr sr 0 0 1 1 b (turned_bar cr sr b).
Proof.
  intros Hl. apply andb_prop in Hl. destruct Hl as (Hc & Hd).
  constructor; cbn [turned_bar b_l1 b_l2 b_c b_s b_x1 b_y1 b_x2 b_y2 b_cl b_dl b_rho b_A]; try reflexivity; try ring.
  - induction (b_cl b) as [|l cl IH]; [constructor|]. cbn [forallb] in Hc. apply andb_prop in Hc. destruct Hc as (H1 & H2).
    constructor; [| apply IH; exact H2]. unfold cl_rel. repeat split; try (right; exact H1). destruct (cl_term l); cbn [kof]; ring.
  - induction (b_dl b) as [|l dl IH]; [constructor|]. cbn [forallb] in Hd. apply andb_prop in Hd. destruct Hd as (H1 & H2).
    constructor; [| apply IH; exact H2]. unfold dl_rel. repeat split; try (right; exact H1); destruct (dl_term l); cbn [kof]; ring.
Qed.

(* THEOREM (C07, whole bar): turned by any angle, a bar whose loads are given in its own axes is cut at the same positions,
   its nodes turn along, and every nodal load (in the bar's axes) is what it was *)
Theorem turned_bar_is_sliced_alike (cr sr : Q) (b : bar Q) : cr * cr + sr * sr == 1 -> own_axes_only b = true ->
  Forall2 (fun n n' => pn_t n' = pn_t n /\ pn_x n' == cr * pn_x n - sr * pn_y n /\ pn_y n' == sr * pn_x n + cr * pn_y n /\
                       pn_ext n' =t= pn_ext n /\ pn_left n' =t= pn_left n /\ pn_right n' =t= pn_right n)
          (preprocess_bar false b) (preprocess_bar false (turned_bar cr sr b)).
Proof.
  intros Hu Hl.
  assert (H1 : ~ 1 == 0) by discriminate. assert (Hm : 1 == 1 * 1) by ring.
  assert (Hw : false = true -> cr == 1 /\ sr == 0) by discriminate.
  pose proof (preprocess_bar_units 1 cr sr 0 0 1 1 H1 Hm Hu false b (turned_bar cr sr b) Hw (turned_bar_rel cr sr b Hl)) as H.
  eapply Forall2_weaken; [| exact H].
  intros n n' (A1 & A2 & A3 & A4 & A5 & A6).
  split; [exact A1|]. split; [rewrite A2; ring|]. split; [rewrite A3; ring|].
  split; [etransitivity; [exact A4 | apply dscale_1]|]. split; [etransitivity; [exact A5 | apply dscale_1] | etransitivity; [exact A6 | apply dscale_1]].
Qed.
