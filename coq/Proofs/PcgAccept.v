(* Split from PcgProofs.v so that only what speaks about the tolerance handed to the solver depends on Gen/GenSolver.v. *)
From Coq Require Import ZArith QArith Qabs List Bool Arith Lia Setoid.
From Inkfem Require Import Num.NumOps Gen.GenPcg Gen.GenSolver Gen.GenAccept Proofs.SolverProofs Proofs.PcgProofs.
Local Open Scope Q_scope.

(* an answer the solver itself finds good enough (every entry of its r within the tolerance it was given, MaxError = error / 2 as
   regenerated in Gen/GenSolver.v) meets the bound the acceptance test applies afterwards (Gen/GenAccept.v): in exact
   arithmetic the second test never turns away what the first let through - what it turns away is rounding, divergence
   (MaxIter reached) and non-finite numbers *)
Theorem good_enough_for_the_solver_is_good_enough (n : nat) (A : nat -> nat -> Q) (b : nat -> Q) (e : Q) (k : nat) :
  0 <= e ->
  (forall i, (i < n)%nat -> Qabs (pcg_r (pcg_iter n A k (pcg_init n A b)) i) <= solver_tolerance (O:=QOps) e) ->
  forall i, (i < n)%nat -> Qabs (b i - pcg_mv n A (pcg_answer n A b k) i) <= accept_bound (O:=QOps) e.
Proof.
  intros He H i Hi. rewrite <- (the_residual_tested_is_the_residual_of_the_answer n A b k i).
  eapply Qle_trans; [apply H, Hi | apply solver_tolerance_within_bound, He].
Qed.
