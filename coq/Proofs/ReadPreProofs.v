(* Proofs about the reader of preprocessed files (Model/ReadPre.v). *)
From Coq Require Import ZArith QArith Qabs NArith Arith List String Ascii Bool Lia Lqa.
From Inkfem Require Import Model.Types Model.Regex Gen.GenRegex Model.Read Model.ReadPre.
Import ListNotations.
Local Open Scope string_scope.
Local Close Scope Q_scope.

(* an accepted slice node passed the net = ext + left + right check *)
Lemma parse_pnode_checked ls n : parse_pnode ls = POk n -> checksum_ok n = true /\ List.length ls = 6.
Proof.
  unfold parse_pnode.
  destruct ls as [|l0 [|l1 [|l2 [|l3 [|l4 [|l5 [|l6 r]]]]]]]; try discriminate.
  destruct (rsearch re_pre_positionPattern l0); [| discriminate].
  destruct (parse_float _); try discriminate. destruct (parse_float _); try discriminate. destruct (parse_float _); try discriminate.
  destruct (torsor_line re_pre_externalLoadPattern l1); [| discriminate].
  destruct (torsor_line re_pre_leftLoadPattern l2); [| discriminate].
  destruct (torsor_line re_pre_rightLoadPattern l3); [| discriminate].
  destruct (torsor_line re_pre_netLoadPattern l4); [| discriminate].
  destruct (rsearch re_pre_dofPattern l5); [| discriminate].
  destruct (parse_dof _); [| discriminate].
  match goal with |- (if checksum_ok ?x then _ else _) = _ -> _ => destruct (checksum_ok x) eqn:E end; [| discriminate].
  intros H. injection H as <-. split; [exact E | reflexivity].
Qed.

(* a bar block: exactly `count` slice nodes, six lines each, all checked *)
Lemma take_nodes_spec fuel : forall count lines ns rest,
  take_nodes fuel count lines = POk (ns, rest) ->
  List.length ns = count /\ List.length lines = 6 * count + List.length rest /\ Forall (fun n => checksum_ok n = true) ns.
Proof.
  induction count as [|k IH]; intros lines ns rest H; cbn [take_nodes] in H.
  - injection H as <- <-. split; [reflexivity | split; [cbn; lia | constructor]].
  - destruct lines as [|l0 [|l1 [|l2 [|l3 [|l4 [|l5 r]]]]]]; try discriminate.
    destruct (parse_pnode [l0; l1; l2; l3; l4; l5]) as [n|] eqn:P; [| discriminate].
    destruct (take_nodes fuel k r) as [[ns' r']|] eqn:T; [| discriminate].
    injection H as <- <-. destruct (IH r ns' r' T) as (L1 & L2 & F).
    destruct (parse_pnode_checked _ _ P) as (C & _).
    split; [cbn [List.length]; lia | split; [cbn [List.length]; lia | constructor; assumption]].
Qed.

Definition bar_block_ok (b : prbar) : Prop :=
  List.length (pb_pnodes b) = pb_count b /\ Forall (fun n => checksum_ok n = true) (pb_pnodes b).

Lemma psteps_bars fuel : forall p lines p',
  psteps fuel p lines = POk p' -> Forall bar_block_ok (q_bars p) -> Forall bar_block_ok (q_bars p').
Proof.
  induction fuel as [|f IH]; intros p lines p' H Hp; cbn in H; [discriminate|].
  destruct lines as [|line rest]; [injection H as <-; exact Hp|].
  destruct (rsearch re_io_genericSectionHeaderRegex line).
  - apply (IH _ _ _ H). exact Hp.
  - destruct (String.eqb (q_section p) "nodes").
    { destruct (deserialize_node line); [| discriminate]. apply (IH _ _ _ H). exact Hp. }
    destruct (String.eqb (q_section p) "materials").
    { destruct (deserialize_material line); [| discriminate]. apply (IH _ _ _ H). exact Hp. }
    destruct (String.eqb (q_section p) "sections").
    { destruct (deserialize_section line); [| discriminate]. apply (IH _ _ _ H). exact Hp. }
    destruct (String.eqb (q_section p) "bars"); [| discriminate].
    destruct (negb (q_nd p && q_md p && q_sd p)); [discriminate|].
    destruct (deserialize_bar line) as [b|]; [| discriminate].
    destruct (link_bar (def_state p) b) as [lb|]; [| discriminate].
    match type of H with context [if ?c then PErr PLines else _] => destruct c end; [discriminate|].
    destruct (take_nodes f (bar_count line) rest) as [[ns rest']|] eqn:T; [| discriminate].
    apply (IH _ _ _ H). cbn. apply Forall_app. split; [exact Hp|].
    constructor; [| constructor]. destruct (take_nodes_spec f _ _ _ _ T) as (L & _ & F).
    split; assumption.
Qed.

(* an accepted preprocessed file: the equation count and the own-weight flag are the ones
   written in it, every bar block holds the announced number of slice nodes and every slice
   node satisfies net = ext + left + right *)
Theorem read_pre_ok lines s : read_pre_lines lines = POk s ->
  Forall bar_block_ok (ps_bars s) /\
  exists v d w rest cd cw, lines = v :: d :: w :: rest /\ parse_version v = Ok (ps_major s, ps_minor s) /\
    rsearch re_pre_dofRegex d = Some cd /\ parse_nat (group d cd 1) = Some (ps_dofs s) /\
    rsearch re_pre_ownWeightRegex w = Some cw /\ ps_weight s = String.eqb (group w cw 1) "yes".
Proof.
  unfold read_pre_lines. destruct lines as [|v [|d [|w rest]]]; try discriminate;
    destruct (parse_version v) as [[ma mi]|] eqn:V; try discriminate.
  - destruct (rsearch re_pre_dofRegex d) as [cd|]; [| discriminate]. destruct (parse_nat _); discriminate.
  - destruct (rsearch re_pre_dofRegex d) as [cd|] eqn:D; [| discriminate].
    destruct (parse_nat (group d cd 1)) as [dofs|] eqn:N; [| discriminate].
    destruct (rsearch re_pre_ownWeightRegex w) as [cw|] eqn:W; [| discriminate].
    destruct (psteps _ pstate0 rest) as [p|] eqn:P; [| discriminate].
    intros H. injection H as <-. cbn. split.
    + apply (psteps_bars _ _ _ _ P). constructor.
    + exists v, d, w, rest, cd, cw. repeat split; assumption.
Qed.

(* the check the reader applies is met by any node whose printed net is the exact sum *)
Lemma checksum_exact_sum (n : prnode) :
  (t_fx (pr_net n) == t_fx (pr_ext n) + t_fx (pr_left n) + t_fx (pr_right n))%Q ->
  (t_fy (pr_net n) == t_fy (pr_ext n) + t_fy (pr_left n) + t_fy (pr_right n))%Q ->
  (t_mz (pr_net n) == t_mz (pr_ext n) + t_mz (pr_left n) + t_mz (pr_right n))%Q ->
  checksum_ok n = true.
Proof.
  intros H1 H2 H3. unfold checksum_ok.
  assert (G : forall net a b c, (net == a + b + c)%Q -> close_sum net a b c = true).
  { intros net a b c H. unfold close_sum.
    assert (Z0 : (Qabs (net - (a + b + c)) == 0)%Q) by (rewrite H; setoid_replace (a + b + c - (a + b + c))%Q with 0%Q by ring; reflexivity).
    set (X := ((Qabs a + Qabs b + Qabs c) * (1 # 1000000000000000))%Q) in *.
    assert (NN : (0 <= X)%Q).
    { unfold X. apply Qmult_le_0_compat; [| discriminate].
      pose proof (Qabs_nonneg a). pose proof (Qabs_nonneg b). pose proof (Qabs_nonneg c). lra. }
    assert (P : (0 < (1 # 10000000000) + X)%Q) by lra.
    apply andb_true_intro. split.
    - apply Qle_bool_iff. rewrite Z0. apply Qlt_le_weak. exact P.
    - apply negb_true_iff. apply not_true_is_false. intro E. apply Qeq_bool_iff in E. rewrite Z0 in E. rewrite <- E in P. inversion P. }
  rewrite (G _ _ _ _ H1), (G _ _ _ _ H2), (G _ _ _ _ H3). reflexivity.
Qed.
