(* Proofs for C09: the regenerated kernels are homogeneous under a change of the length unit
   (factor lam) and of the force unit (factor phi): lengths x lam, areas x lam^2, inertias
   x lam^4, section moduli x lam^3, moduli x phi / lam^2, forces x phi, moments x phi lam,
   distributed forces x phi / lam, distributed moments x phi, translations x lam, rotations x 1,
   stresses x phi / lam^2. *)
From Coq Require Import ZArith QArith Qabs Reals List Bool Arith Lia Field.
From Inkfem Require Import Num.NumOps Gen.GenStiffness Gen.GenLoads Gen.GenRecover Spec.Stiffness
  Model.Types Proofs.StiffnessQ.
Import ListNotations.

Section Vec.
Context {F : Type} {O : NumOps F}.
Local Open Scope num_scope.
Definition scale_disp (lam : F) (d : list F) : list F :=
  match d with [x1; y1; r1; x2; y2; r2] => [lam * x1; lam * y1; r1; lam * x2; lam * y2; r2] | _ => d end.
Definition scale_force (lam phi : F) (d : list F) : list F :=
  match d with [x1; y1; r1; x2; y2; r2] => [phi * x1; phi * y1; phi * lam * r1; phi * x2; phi * y2; phi * lam * r2] | _ => d end.
End Vec.

Lemma stiff_units_R : forall (L c s t1 t2 E A I lam phi x1 y1 r1 x2 y2 r2 : R),
  (L * (t2 - t1) <> 0 -> lam <> 0 ->
  let d := [x1; y1; r1; x2; y2; r2] in
  mv (stiff_gen (O:=ROps) (lam * L) c s t1 t2 (E * phi / (lam * lam)) (lam * lam * A) (lam * lam * lam * lam * I)) (scale_disp lam d)
  = scale_force lam phi (mv (stiff_gen (O:=ROps) L c s t1 t2 E A I) d))%R.
Proof.
  intros L c s t1 t2 E A I lam phi x1 y1 r1 x2 y2 r2 Hl Hlam d.
  assert (L <> 0)%R by (intro H; apply Hl; rewrite H; ring).
  assert (t2 - t1 <> 0)%R by (intro H0; apply Hl; rewrite H0; ring).
  unfold d, stiff_gen, scale_disp, scale_force, mv, dot, vsum. cbn.
  repeat (f_equal; try (field; auto)).
Qed.

Lemma lump_units_R : forall (sFx sFy sMz eFx eFy eMz len lam phi : R), (len <> 0 -> lam <> 0 ->
  let a := lump_gen (O:=ROps) sFx sFy sMz eFx eFy eMz len in
  let b := lump_gen (O:=ROps) (sFx * phi / lam) (sFy * phi / lam) (sMz * phi) (eFx * phi / lam) (eFy * phi / lam) (eMz * phi) (lam * len) in
  t_fx (fst b) = phi * t_fx (fst a) /\ t_fy (fst b) = phi * t_fy (fst a) /\ t_mz (fst b) = phi * lam * t_mz (fst a) /\
  t_fx (snd b) = phi * t_fx (snd a) /\ t_fy (snd b) = phi * t_fy (snd a) /\ t_mz (snd b) = phi * lam * t_mz (snd a))%R.
Proof.
  intros. unfold a, b, lump_gen, t_fx, t_fy, t_mz. cbn. repeat split; field; auto.
Qed.

Lemma recover_units_R : forall (E I S A len u1 v1 r1 u2 v2 r2 a1 a2 a3 c1 c2 c3 lam phi : R),
  (len <> 0 -> A <> 0 -> S <> 0 -> lam <> 0 ->
  let x := recover_gen (O:=ROps) E I S A len u1 v1 r1 u2 v2 r2 a1 a2 a3 c1 c2 c3 in
  let y := recover_gen (O:=ROps) (E * phi / (lam * lam)) (lam * lam * lam * lam * I) (lam * lam * lam * S) (lam * lam * A) (lam * len)
             (lam * u1) (lam * v1) r1 (lam * u2) (lam * v2) r2
             (phi * a1) (phi * a2) (phi * lam * a3) (phi * c1) (phi * c2) (phi * lam * c3) in
  let sc (q : R * R * R * R) := (phi / (lam * lam) * fst (fst (fst q)), phi * snd (fst (fst q)), phi * lam * snd (fst q), phi / (lam * lam) * snd q) in
  fst y = sc (fst x) /\ snd y = sc (snd x))%R.
Proof.
  intros. unfold x, y, sc, recover_gen. cbn. split; repeat (f_equal; try (field; auto)).
Qed.

Lemma own_weight_units_R : forall (rho A lam phi : R), (lam <> 0 ->
  own_weight_gen (O:=ROps) (rho * phi / (lam * lam * lam)) (lam * lam * A) = own_weight_gen (O:=ROps) rho A * phi / lam)%R.
Proof. intros. unfold own_weight_gen. cbn. field; auto. Qed.

Section Q.
Local Open Scope Q_scope.
Lemma stiff_units_Q : forall (L c s t1 t2 E A I lam phi x1 y1 r1 x2 y2 r2 : Q),
  ~ L * (t2 - t1) == 0 -> ~ lam == 0 ->
  let d := [x1; y1; r1; x2; y2; r2] in
  veq (mv (stiff_gen (O:=QOps) (lam * L) c s t1 t2 (E * phi / (lam * lam)) (lam * lam * A) (lam * lam * lam * lam * I)) (scale_disp lam d))
      (scale_force lam phi (mv (stiff_gen (O:=QOps) L c s t1 t2 E A I) d)).
Proof.
  intros L c s t1 t2 E A I lam phi x1 y1 r1 x2 y2 r2 Hl Hlam d.
  pose proof (HLq L t1 t2 Hl). pose proof (Htq L t1 t2 Hl).
  unfold d, stiff_gen, scale_disp, scale_force, mv, dot, vsum. cbn.
  repeat (constructor; try (field; auto)).
Qed.
End Q.
