(* What solve does with the --error option (Gen/GenSolver.v, regenerated from
   process/solve_displacements.go): the tolerance handed to the iterative solver and the bound
   handed to the acceptance test are homogeneous of degree one in the option (they convert with the
   force unit like the option itself), the acceptance bound is the option itself, and the
   solver's tolerance is never looser than what will be accepted. *)
From Coq Require Import ZArith QArith Qabs List Bool Lia Lqa.
From Inkfem Require Import Num.NumOps Gen.GenSolver Gen.GenAccept.
Import ListNotations.

Lemma solver_tolerance_units : forall phi e : Q, solver_tolerance (O:=QOps) (phi * e) == phi * solver_tolerance (O:=QOps) e.
Proof. intros phi e. unfold solver_tolerance. cbn. field. Qed.

Lemma solver_tolerance_within_bound : forall e : Q, 0 <= e -> solver_tolerance (O:=QOps) e <= accept_bound (O:=QOps) e.
Proof.
  intros e He.
  assert (H : solver_tolerance (O:=QOps) e == solver_tolerance (O:=QOps) 1 * e) by (unfold solver_tolerance; cbn; field).
  assert (Hb : accept_bound (O:=QOps) e == accept_bound (O:=QOps) 1 * e) by (unfold accept_bound; cbn; field).
  assert (Hc : solver_tolerance (O:=QOps) 1 <= accept_bound (O:=QOps) 1) by (vm_compute; discriminate).
  rewrite H, Hb. apply Qmult_le_compat_r; assumption.
Qed.

Lemma solver_tolerance_positive : forall e : Q, 0 < e -> 0 < solver_tolerance (O:=QOps) e.
Proof.
  intros e He.
  assert (H : solver_tolerance (O:=QOps) e == solver_tolerance (O:=QOps) 1 * e) by (unfold solver_tolerance; cbn; field).
  assert (Hc : 0 < solver_tolerance (O:=QOps) 1) by (vm_compute; reflexivity).
  rewrite H. apply Qmult_lt_0_compat; assumption.
Qed.

(* the iteration budget depends on the number of equations only (no dimensional quantity) *)
Lemma solver_budget : forall n : Q, solver_max_iter (O:=QOps) n == 10 * n.
Proof. intros n. unfold solver_max_iter. cbn. field. Qed.
