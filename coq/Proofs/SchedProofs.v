(* Proofs for C08: the collection protocol of StructureModel never blocks before every bar has
   arrived, and what it collects is a permutation of the bars - for every number of bars and
   every interleaving. *)
From Coq Require Import Arith List Bool Lia Permutation.
From Inkfem Require Import Model.Sched.
Import ListNotations.

(* nothing is lost or duplicated on the way *)
Definition accounted (n : nat) (s : sstate) : Prop := Permutation (pending s ++ chan s ++ received s) (seq 0 n).

Ltac perm_count :=
  apply (Permutation_count_occ Nat.eq_dec); intros ?x; repeat (rewrite ?count_occ_app; cbn [count_occ]);
  repeat match goal with |- context [Nat.eq_dec ?a ?b] => destruct (Nat.eq_dec a b) end; lia.

Lemma step_accounted cap n s s' : sstep cap s s' -> accounted n s -> accounted n s'.
Proof.
  unfold accounted. intros H A. inversion H as [s0 l1 i l2 Hp Hc | s0 x r Hc]; subst; cbn.
  - rewrite Hp in A. eapply Permutation_trans; [| exact A]. perm_count.
  - rewrite Hc in A. eapply Permutation_trans; [| exact A]. perm_count.
Qed.

Lemma reach_accounted n s : sreach n (sinit n) s -> accounted n s.
Proof.
  induction 1 as [|s s' _ IH Hs].
  - unfold accounted, sinit. cbn. rewrite app_nil_r. apply Permutation_refl.
  - eapply step_accounted; eauto.
Qed.

Lemma reach_room n s : sreach n (sinit n) s -> length (pending s) + length (chan s) + length (received s) = n.
Proof.
  intros H. apply reach_accounted in H. unfold accounted in H. apply Permutation_length in H.
  rewrite !app_length, seq_length in H. lia.
Qed.

(* no deadlock: as long as the collection is not over, a step is enabled *)
Theorem no_deadlock n s : sreach n (sinit n) s -> sfinal s \/ exists s', sstep n s s'.
Proof.
  intros H. pose proof (reach_room n s H) as R.
  destruct (chan s) as [|x r] eqn:C.
  - destruct (pending s) as [|i l] eqn:P.
    + left. split; assumption.
    + right. eexists. apply (step_send n s [] i l); [exact P|]. rewrite C. cbn in *. lia.
  - right. eexists. apply (step_recv n s x r). exact C.
Qed.

(* every maximal run ends, after exactly 2 n steps, with all the bars collected *)
Definition measure (s : sstate) : nat := 2 * length (pending s) + length (chan s).
Lemma step_decreases cap s s' : sstep cap s s' -> measure s' < measure s.
Proof.
  unfold measure. intros H. inversion H as [s0 l1 i l2 Hp Hc | s0 x r Hc]; subst; cbn.
  - rewrite Hp, !app_length. cbn. lia.
  - rewrite Hc. cbn. lia.
Qed.

Theorem collects_all n s : sreach n (sinit n) s -> sfinal s -> Permutation (received s) (seq 0 n).
Proof.
  intros H (P & C). apply reach_accounted in H. unfold accounted in H. rewrite P, C in H. exact H.
Qed.

(* and every arrival order is possible: the protocol does not restrict the schedule *)
Lemma send_all : forall l n s, sreach n (sinit n) s -> pending s = l -> length (chan s) + length l <= n ->
  exists s', sreach n (sinit n) s' /\ pending s' = [] /\ chan s' = chan s ++ l /\ received s' = received s.
Proof.
  induction l as [|i l IH]; intros n s H P L.
  - exists s. rewrite app_nil_r. auto.
  - assert (St : sstep n s {| pending := [] ++ l; chan := chan s ++ [i]; received := received s |}).
    { apply (step_send n s [] i l); [exact P | cbn in L; lia]. }
    destruct (IH n _ (sreach_step n _ _ _ H St) eq_refl) as (s' & R & P' & C' & Rc).
    { cbn. rewrite app_length. cbn in *. lia. }
    exists s'. repeat split; auto. cbn in C'. rewrite C', <- app_assoc. reflexivity.
Qed.
