(* C09 for a whole structure of the model: the same structure written in another unit system (lengths x lam, forces x
   phi; Proofs/UnitsBar.v units_bar) is sliced, numbered alike and assembled.  With rot i telling whether equation i is a
   rotation equation: row i of the new system is the old one times phi (force rows) or phi lam (moment rows) once the
   unknowns are converted (translations x lam, rotations x 1).  Hence the converted displacements solve the new system
   whenever the old ones solve the old system.  The absolute 1e-10 cut-off of the assembly is NOT unit-covariant (known
   finding K-C09-assembly-cutoff): the statement assumes that no stiffness term of either system falls under it. *)
From Coq Require Import ZArith QArith Qabs List Bool Arith Lia Field Lqa Setoid Morphisms.
From Inkfem Require Import Num.NumOps Gen.GenConsts Gen.GenStiffness Gen.GenLoads Spec.Stiffness Spec.Superposition Model.Types Model.Slice Model.Loads Model.Dof
  Model.Assemble Model.Recover Spec.Resultant Proofs.LoadsProofs Proofs.RecoverProofs Proofs.FieldProofs Proofs.AssembleProofs
  Proofs.SystemProofs Proofs.UnitsBar Proofs.LinearStructure.
Import ListNotations.
Local Open Scope Q_scope.

Lemma nth_map_seq (f : nat -> Q) n j : (j < n)%nat -> nth j (map f (seq 0 n)) 0 = f j.
Proof.
  intros Hj. rewrite (nth_indep _ 0 (f 0%nat)) by (rewrite map_length, seq_length; exact Hj).
  rewrite map_nth, seq_nth by exact Hj. reflexivity.
Qed.

Section Units.
Variables lam phi : Q.
Hypothesis Hlam : ~ lam == 0.
Variable rot : nat -> bool.                      (* equation i is a rotation / moment equation *)

Definition su (j : nat) : Q := if rot j then 1 else lam.            (* unknowns *)
Definition sc (i : nat) : Q := if rot i then phi * lam else phi.    (* rows *)
Definition kinded (d : dof3) : Prop := rot (fst (fst d)) = false /\ rot (snd (fst d)) = false /\ rot (snd d) = true.

(* the converted displacement vector *)
Definition conv_u (n : nat) (u : list Q) : list Q := map (fun j => su j * uget u j) (seq 0 n).
Lemma uget_conv n u j : (j < n)%nat -> uget (conv_u n u) j = su j * uget u j.
Proof.
  intros Hj. unfold conv_u. unfold uget at 1. cbn [n0 QOps]. apply (nth_map_seq (fun j => su j * uget u j) n j Hj).
Qed.

(* the finite element in the other unit system: same numbers, same positions, the converted bar *)
Definition conv_slice (sl : slice) (na' nb' : pnode Q) : slice :=
  {| s_b := units_bar lam phi (s_b sl); s_na := na'; s_nb := nb'; s_da := s_da sl; s_db := s_db sl |}.

(* ---- one finite element: its forces convert ---- *)
Lemma s_force_units n (u : list Q) (sl : slice) (na' nb' : pnode Q) :
  pn_t na' = pn_t (s_na sl) -> pn_t nb' = pn_t (s_nb sl) ->
  no_tiny (s_k sl) -> no_tiny (s_k (conv_slice sl na' nb')) ->
  ~ b_L (s_b sl) * (pn_t (s_nb sl) - pn_t (s_na sl)) == 0 ->
  kinded (s_da sl) -> kinded (s_db sl) -> nums_below n sl ->
  forall p, (p < 6)%nat ->
  s_force (conv_u n u) (conv_slice sl na' nb') p == sc (nth p (s_nums sl) 0%nat) * s_force u sl p.
Proof.
  intros Ta Tb Hk Hk' Hl (A1 & A2 & A3) (B1 & B2 & B3) Hn p Hp.
  assert (HL : ~ b_L (s_b sl) == 0) by (intro H; apply Hl; rewrite H; ring).
  assert (Ht : ~ pn_t (s_nb sl) - pn_t (s_na sl) == 0) by (intro H; apply Hl; rewrite H; ring).
  rewrite (s_force_unfiltered (conv_u n u) (conv_slice sl na' nb') p Hk' Hp), (s_force_unfiltered u sl p Hk Hp).
  unfold nums_below, s_nums, slice_numbers, d3_list in Hn.
  destruct sl as [b na nb [[a1 a2] a3] [[b1 b2] b3]]. cbn [s_b s_na s_nb s_da s_db fst snd app] in *.
  assert (N : (a1 < n /\ a2 < n /\ a3 < n /\ b1 < n /\ b2 < n /\ b3 < n)%nat).
  { repeat match goal with H : Forall _ (_ :: _) |- _ => inversion H; clear H; subst end. repeat split; assumption. }
  destruct N as (N1 & N2 & N3 & N4 & N5 & N6).
  unfold conv_slice, s_k, s_nums, slice_numbers, d3_list. cbn [s_b s_na s_nb s_da s_db fst snd app units_bar b_L b_c b_s b_E b_A b_I].
  rewrite Ta, Tb.
  unfold qsum. cbn [seq map fold_right nth].
  rewrite !uget_conv by assumption.
  unfold su, sc.
  do 6 (destruct p as [|p]; [cbn [nth]; rewrite ?A1, ?A2, ?A3, ?B1, ?B2, ?B3;
    unfold stiff_gen, entry; cbn [nth nadd nmul nsub ndiv nopp nofZ n0 n1 QOps];
    generalize (uget u a1) (uget u a2) (uget u a3) (uget u b1) (uget u b2) (uget u b3); intros g1 g2 g3 g4 g5 g6;
    field; auto |]).
  lia.
Qed.

(* what is asked of every finite element: no stiffness term under the cut-off in either unit system, a length,
   numbers that are translation, translation, rotation at both ends and below n *)
Definition good_slice (n : nat) (sl : slice) : Prop :=
  no_tiny (s_k sl) /\ no_tiny (s_k (conv_slice sl (s_na sl) (s_nb sl))) /\
  ~ b_L (s_b sl) * (pn_t (s_nb sl) - pn_t (s_na sl)) == 0 /\ kinded (s_da sl) /\ kinded (s_db sl) /\ nums_below n sl.

Definition slice_rel (sl sl' : slice) : Prop :=
  sl' = conv_slice sl (s_na sl') (s_nb sl') /\ pn_t (s_na sl') = pn_t (s_na sl) /\ pn_t (s_nb sl') = pn_t (s_nb sl).

Lemma s_k_conv sl na' nb' : pn_t na' = pn_t (s_na sl) -> pn_t nb' = pn_t (s_nb sl) ->
  s_k (conv_slice sl na' nb') = s_k (conv_slice sl (s_na sl) (s_nb sl)).
Proof. intros Ta Tb. unfold s_k, conv_slice. cbn [s_b s_na s_nb]. rewrite Ta, Tb. reflexivity. Qed.

Lemma s_fterms_units n u sl sl' i : good_slice n sl -> slice_rel sl sl' ->
  fraw_at (s_fterms (conv_u n u) sl') i == sc i * fraw_at (s_fterms u sl) i.
Proof.
  intros (K1 & K2 & Hl & Ka & Kb & Hn) (E & Ta & Tb). rewrite E.
  unfold s_fterms. rewrite !fraw_at_map_seq. cbn [fst snd].
  assert (Hnums : s_nums (conv_slice sl (s_na sl') (s_nb sl')) = s_nums sl) by reflexivity.
  rewrite Hnums.
  transitivity (qsum (map (fun p => sc i * (if Nat.eqb (nth p (s_nums sl) 0%nat) i then s_force u sl p else 0)) (seq 0 6))).
  - apply qsum_ext_in. intros p Hp. apply in_seq in Hp.
    destruct (Nat.eqb (nth p (s_nums sl) 0%nat) i) eqn:Ep; [| ring].
    apply Nat.eqb_eq in Ep. rewrite <- Ep.
    apply (s_force_units n u sl (s_na sl') (s_nb sl') Ta Tb K1); try assumption; [| lia].
    rewrite (s_k_conv sl _ _ Ta Tb). exact K2.
  - induction (seq 0 6) as [|p l IH]; cbn [map qsum fold_right]; [ring|].
    change (fold_right Qplus 0 ?x) with (qsum x) in *. rewrite IH. ring.
Qed.

Lemma k_terms_units n u : forall sls sls', Forall (good_slice n) sls -> Forall2 slice_rel sls sls' -> forall i,
  fraw_at (flat_map (s_fterms (conv_u n u)) sls') i == sc i * fraw_at (flat_map (s_fterms u) sls) i.
Proof.
  intros sls sls' Hg Hr. induction Hr as [|sl sl' r r' H _ IH]; intros i; cbn [flat_map].
  - rewrite fraw_at_nil. ring.
  - inversion Hg as [|? ? G1 G2]; subst. rewrite !fraw_at_app, (IH G2 i), (s_fterms_units n u sl sl' i G1 H). ring.
Qed.

(* ---- sliced bars in the two unit systems ---- *)
Definition node_units (nd nd' : pnode Q) : Prop :=
  pn_t nd' = pn_t nd /\ pn_x nd' == lam * pn_x nd /\ pn_y nd' == lam * pn_y nd /\
  tor_eq (pn_ext nd') (dscale phi (phi * lam) (pn_ext nd)) /\ tor_eq (pn_left nd') (dscale phi (phi * lam) (pn_left nd)) /\
  tor_eq (pn_right nd') (dscale phi (phi * lam) (pn_right nd)).
Definition pbar_units (p p' : pbar Q) : Prop :=
  pb_bar p' = units_bar lam phi (pb_bar p) /\ pb_dofs p' = pb_dofs p /\ Forall2 node_units (pb_nodes p) (pb_nodes p').

Lemma slices_from_units b : forall (nodes nodes' : list (pnode Q)) (ds : list dof3) na na' da,
  pn_t na' = pn_t na -> Forall2 node_units nodes nodes' ->
  Forall2 slice_rel (slices_from b na da (combine nodes ds)) (slices_from (units_bar lam phi b) na' da (combine nodes' ds)).
Proof.
  induction nodes as [|m nodes IH]; intros nodes' ds na na' da Ta H; inversion H as [|? m' ? nodes'' Hm Hr]; subst; [constructor|].
  destruct ds as [|d ds]; [constructor|]. cbn [combine slices_from].
  destruct Hm as (Tm & _). constructor; [| apply IH; assumption].
  unfold slice_rel, conv_slice. cbn [s_b s_na s_nb s_da s_db]. repeat split; assumption.
Qed.

Lemma bar_slices_units p p' : pbar_units p p' -> Forall2 slice_rel (bar_slices p) (bar_slices p').
Proof.
  intros (Hb & Hd & Hn). unfold bar_slices. rewrite Hb, Hd.
  destruct Hn as [|m m' r r' (Tm & _) Hr]; [constructor|].
  destruct (pb_dofs p) as [|d ds]; [constructor|]. cbn [combine]. apply slices_from_units; assumption.
Qed.

Lemma Forall2_app' {A B} (P : A -> B -> Prop) l1 l2 l1' l2' : Forall2 P l1 l1' -> Forall2 P l2 l2' -> Forall2 P (l1 ++ l2) (l1' ++ l2').
Proof. induction 1; cbn; [auto | constructor; auto]. Qed.

Lemma all_slices_units : forall S S', Forall2 pbar_units S S' -> Forall2 slice_rel (all_slices S) (all_slices S').
Proof.
  unfold all_slices. induction 1 as [|p p' r r' H _ IH]; cbn [flat_map]; [constructor|].
  apply Forall2_app'; [apply bar_slices_units; exact H | exact IH].
Qed.

(* ---- the load vector converts ---- *)
Lemma net_units nd nd' : node_units nd nd' -> tor_eq (pn_net nd') (dscale phi (phi * lam) (pn_net nd)).
Proof.
  intros (_ & _ & _ & (E1 & E2 & E3) & (L1 & L2 & L3) & (R1 & R2 & R3)).
  unfold tor_eq, pn_net, tor_add, dscale, t_fx, t_fy, t_mz in *. cbn [fst snd nadd QOps] in *.
  rewrite E1, E2, E3, L1, L2, L3, R1, R2, R3. repeat split; ring.
Qed.

Lemma pick_sc a i v v' : v' == sc a * v -> (if Nat.eqb a i then v' else 0) == sc i * (if Nat.eqb a i then v else 0).
Proof. destruct (Nat.eqb_spec a i) as [->|]; [intro H; exact H | intro; ring]. Qed.

Lemma node_fterms_units (b : bar Q) nd nd' d i : node_units nd nd' -> kinded d ->
  fraw_at (node_fterms (units_bar lam phi b) (nd', d)) i == sc i * fraw_at (node_fterms b (nd, d)) i.
Proof.
  intros Hn (K1 & K2 & K3). destruct (net_units nd nd' Hn) as (H1 & H2 & H3).
  unfold node_fterms. cbn [units_bar b_c b_s]. destruct d as [[a1 a2] a3]. cbn [fst snd] in *.
  rewrite !fraw_at_cons, !fraw_at_nil. cbn [fst snd].
  unfold to_global, dscale, t_fx, t_fy, t_mz in *. cbn [fst snd nadd nmul nsub QOps] in *.
  rewrite (pick_sc a1 i (fst (fst (pn_net nd)) * b_c b - snd (fst (pn_net nd)) * b_s b)),
          (pick_sc a2 i (fst (fst (pn_net nd)) * b_s b + snd (fst (pn_net nd)) * b_c b)),
          (pick_sc a3 i (snd (pn_net nd))).
  - ring.
  - unfold sc. rewrite K3. exact H3.
  - unfold sc. rewrite K2, H1, H2. ring.
  - unfold sc. rewrite K1, H1, H2. ring.
Qed.

Lemma bar_fterms_units p p' i : pbar_units p p' -> Forall kinded (pb_dofs p) ->
  fraw_at (bar_fterms p') i == sc i * fraw_at (bar_fterms p) i.
Proof.
  intros (Hb & Hd & Hn) Hk. unfold bar_fterms. rewrite Hb, Hd. revert Hk. generalize (pb_dofs p) as ds.
  induction Hn as [|m m' r r' Hm _ IH]; intros ds Hk.
  - cbn [combine flat_map]. rewrite fraw_at_nil. ring.
  - destruct ds as [|d ds]; [cbn [combine flat_map]; rewrite fraw_at_nil; ring|].
    inversion Hk as [|? ? K1 K2]; subst. cbn [combine flat_map]. rewrite !fraw_at_app, (IH ds K2), (node_fterms_units (pb_bar p) m m' d i Hm K1). ring.
Qed.

Lemma all_fterms_units : forall S S', Forall2 pbar_units S S' -> Forall (fun p => Forall kinded (pb_dofs p)) S -> forall i,
  fraw_at (all_fterms S') i == sc i * fraw_at (all_fterms S) i.
Proof.
  unfold all_fterms. induction 1 as [|p p' r r' H _ IH]; intros Hk i; cbn [flat_map].
  - rewrite fraw_at_nil. ring.
  - inversion Hk as [|? ? K1 K2]; subst. rewrite !fraw_at_app, (IH K2 i), (bar_fterms_units p p' i H K1). ring.
Qed.

(* THEOREM (C09, whole structure): the converted displacements solve the system of the structure written in the other
   unit system *)
Theorem converted_displacements_solve_the_converted_system (n : nat) (S S' : list (pbar Q)) (sup : list nat) (u : list Q) :
  Forall2 pbar_units S S' ->
  Forall (good_slice n) (all_slices S) -> Forall (fun p => Forall kinded (pb_dofs p)) S ->
  (forall i, (i < n)%nat -> is_supported sup i = false -> row_empty (all_contribs S) i = false /\ row_empty (all_contribs S') i = false) ->
  solves n S sup u -> solves n S' sup (conv_u n u).
Proof.
  intros HS Hg Hk Hrows Hs i Hi. rewrite row_times_fsum. unfold f_final.
  destruct (is_supported sup i) eqn:Esup.
  - (* a supported equation: the unknown itself *)
    cbn [n0 QOps].
    transitivity (fsum n (fun j => (if Nat.eqb i j then 1 else 0) * uget (conv_u n u) j)).
    + apply fsum_ext. intros j _. unfold k_final. rewrite Esup. cbn [orb]. unfold delta. cbn [n0 n1 QOps]. reflexivity.
    + rewrite (fsum_delta n i (uget (conv_u n u)) Hi), (uget_conv n u i Hi), (solves_supported n S sup u i Hs Hi Esup). ring.
  - destruct (Hrows i Hi Esup) as (R & R').
    assert (Hn : Forall (nums_below n) (all_slices S)) by (eapply Forall_impl; [| exact Hg]; intros sl G; apply G).
    assert (Hrel : Forall2 slice_rel (all_slices S) (all_slices S')) by (apply all_slices_units; exact HS).
    assert (Hn' : Forall (nums_below n) (all_slices S')).
    { clear -Hn Hrel. induction Hrel as [|sl sl' r r' (E & _) _ IH]; [constructor|].
      inversion Hn as [|? ? N1 N2]; subst. constructor; [| apply IH; exact N2]. rewrite E. exact N1. }
    transitivity (fsum n (fun j => kraw_at (all_contribs S') i j * uget (conv_u n u) j)).
    + apply fsum_ext. intros j Hj. unfold k_final. rewrite Esup, R'. cbn [orb].
      destruct (is_supported sup j) eqn:Ej; [| reflexivity].
      rewrite (uget_conv n u j Hj), (solves_supported n S sup u j Hs Hj Ej). ring.
    + rewrite (raw_row_is_element_forces n (conv_u n u) S' i Hn'). unfold k_terms.
      rewrite (k_terms_units n u _ _ Hg Hrel i).
      fold (k_terms u S). rewrite (row_is_equilibrium n S sup u i Hn Hs Hi Esup R).
      symmetry. apply all_fterms_units; assumption.
Qed.

(* ---- for the structures the model builds: bars sliced by preprocess_bar, with or without own weight ---- *)
Definition prepared (w : bool) (b : bar Q) (d : list dof3) : pbar Q := {| pb_bar := b; pb_nodes := preprocess_bar w b; pb_dofs := d |}.
Definition prepared_all (w : bool) (bs : list (bar Q)) (ds : list (list dof3)) : list (pbar Q) :=
  map (fun p => prepared w (fst p) (snd p)) (combine bs ds).

Lemma prepared_units w : forall bs ds, Forall2 pbar_units (prepared_all w bs ds) (prepared_all w (map (units_bar lam phi) bs) ds).
Proof.
  unfold prepared_all. induction bs as [|b bs IH]; intros ds; [constructor|].
  destruct ds as [|d ds]; [constructor|]. cbn [map combine fst snd]. constructor; [| apply IH].
  unfold pbar_units, prepared. cbn [pb_bar pb_nodes pb_dofs]. split; [reflexivity|]. split; [reflexivity|].
  exact (bar_in_other_units lam phi w b Hlam).
Qed.

Theorem structure_in_other_units (w : bool) (n : nat) (bs : list (bar Q)) (ds : list (list dof3)) (sup : list nat) (u : list Q) :
  let S := prepared_all w bs ds in
  let S' := prepared_all w (map (units_bar lam phi) bs) ds in
  Forall (good_slice n) (all_slices S) -> Forall (Forall kinded) ds ->
  (forall i, (i < n)%nat -> is_supported sup i = false -> row_empty (all_contribs S) i = false /\ row_empty (all_contribs S') i = false) ->
  solves n S sup u -> solves n S' sup (conv_u n u).
Proof.
  intros S S' Hg Hk Hrows Hs.
  apply (converted_displacements_solve_the_converted_system n S S' sup u (prepared_units w bs ds) Hg); try assumption.
  unfold S, prepared_all. clear -Hk. revert ds Hk. induction bs as [|b bs IH]; intros ds Hk; [constructor|].
  destruct ds as [|d ds]; [constructor|]. inversion Hk as [|? ? K1 K2]; subst. cbn [map combine fst snd]. constructor; [exact K1 | apply IH; exact K2].
Qed.

End Units.
