(* C04: proofs.  Preprocessing conserves every applied load (static equivalence per bar). *)
From Coq Require Import ZArith QArith Qabs Reals List Sorted Bool Lia Lqa Permutation Setoid Morphisms.
From Inkfem Require Import Num.NumOps Gen.GenConsts Gen.GenLoads Model.Types Model.Slice Model.Loads
  Spec.Chain Spec.Resultant Proofs.SliceQ.
Import ListNotations.

(* ---------- kernel ---------- *)

Lemma lump_equivalent_R : forall (sFx sFy sMz eFx eFy eMz len : R), (len <> 0)%R ->
  let r := lump_gen (O:=ROps) sFx sFy sMz eFx eFy eMz len in
  let tl := fst r in let ld := snd r in
  (t_fx tl + t_fx ld = (sFx + eFx) / 2 * len)%R /\
  (t_fy tl + t_fy ld = (sFy + eFy) / 2 * len)%R /\
  (t_mz tl + t_mz ld + len * t_fy ld = (sMz + eMz) / 2 * len + len * len * (sFy + 2 * eFy) / 6)%R.
Proof.
  intros. unfold lump_gen in r. subst r tl ld. cbn. repeat split; field; assumption.
Qed.

Lemma lump_equivalent_Q : forall (sFx sFy sMz eFx eFy eMz len : Q), ~ (len == 0)%Q ->
  let r := lump_gen (O:=QOps) sFx sFy sMz eFx eFy eMz len in
  let tl := fst r in let ld := snd r in
  (t_fx tl + t_fx ld == (sFx + eFx) / 2 * len)%Q /\
  (t_fy tl + t_fy ld == (sFy + eFy) / 2 * len)%Q /\
  (t_mz tl + t_mz ld + len * t_fy ld == (sMz + eMz) / 2 * len + len * len * (sFy + 2 * eFy) / 6)%Q.
Proof.
  intros. unfold lump_gen in r. subst r tl ld. cbn. repeat split; field; assumption.
Qed.

Local Open Scope Q_scope.

(* ---------- histories ---------- *)

Lemma preprocess_history : forall (w : bool) (bars : list (bar Q)) (n : nat), (1 <= n)%nat ->
  Nat.iter n (fun s : (list (bar Q) * option (list (list (pnode Q))))%type =>
                (fst s, Some (map (preprocess_bar w) (fst s)))) (bars, None)
  = (bars, Some (map (preprocess_bar w) bars)).
Proof.
  intros w bars n Hn. destruct n as [|n]; [lia|]. clear Hn.
  induction n as [|n IH].
  - reflexivity.
  - change (Nat.iter (S (S n)) ?f ?x) with (f (Nat.iter (S n) f x)). rewrite IH. reflexivity.
Qed.

(* ---------- torsors over Q as a setoid ---------- *)

#[export] Instance tor_eq_equiv : Equivalence tor_eq.
Proof.
  split.
  - intros a. unfold tor_eq. repeat split; reflexivity.
  - intros a b (H1 & H2 & H3). unfold tor_eq. repeat split; symmetry; assumption.
  - intros a b c (H1 & H2 & H3) (K1 & K2 & K3). unfold tor_eq.
    repeat split; etransitivity; eassumption.
Qed.

Local Infix "=t=" := tor_eq (at level 70, no associativity).

#[export] Instance tor_add_proper : Proper (tor_eq ==> tor_eq ==> tor_eq) (tor_add (F:=Q)).
Proof.
  intros a a' (H1 & H2 & H3) b b' (K1 & K2 & K3). unfold tor_eq, tor_add; cbn.
  rewrite H1, H2, H3, K1, K2, K3. repeat split; reflexivity.
Qed.

Ltac tor_crush := unfold tor_eq, tor_add, tor0, t_fx, t_fy, t_mz in *; cbn in *.

Lemma tor_add_0_l a : tor_add tor0 a =t= a.
Proof. destruct a as [[x y] z]. tor_crush. repeat split; ring. Qed.
Lemma tor_add_0_r a : tor_add a tor0 =t= a.
Proof. destruct a as [[x y] z]. tor_crush. repeat split; ring. Qed.
Lemma tor_add_comm a b : tor_add a b =t= tor_add b a.
Proof. destruct a as [[x y] z], b as [[x' y'] z']. tor_crush. repeat split; ring. Qed.
Lemma tor_add_assoc a b c : tor_add (tor_add a b) c =t= tor_add a (tor_add b c).
Proof.
  destruct a as [[x y] z], b as [[x' y'] z'], c as [[x'' y''] z'']. tor_crush. repeat split; ring.
Qed.
Lemma tor_add_swap a b c d :
  tor_add (tor_add a b) (tor_add c d) =t= tor_add (tor_add a c) (tor_add b d).
Proof.
  destruct a as [[x y] z], b as [[x' y'] z'], c as [[x'' y''] z''], d as [[x3 y3] z3].
  tor_crush. repeat split; ring.
Qed.

Definition tsum (l : list (tor Q)) : tor Q := fold_right tor_add tor0 l.

Lemma fold_tsum {A} (f : A -> tor Q) : forall l acc,
  fold_left (fun acc x => tor_add acc (f x)) l acc =t= tor_add acc (tsum (map f l)).
Proof.
  induction l as [|x r IH]; intros acc; cbn [fold_left map tsum fold_right].
  - symmetry. apply tor_add_0_r.
  - rewrite IH. fold (tsum (map f r)). apply tor_add_assoc.
Qed.

Lemma tsum_app l1 l2 : tsum (l1 ++ l2) =t= tor_add (tsum l1) (tsum l2).
Proof.
  induction l1 as [|x r IH]; cbn [app tsum fold_right].
  - symmetry. apply tor_add_0_l.
  - fold (tsum (r ++ l2)) (tsum r). rewrite IH. symmetry. apply tor_add_assoc.
Qed.

Lemma tsum_map_ext {A} (f g : A -> tor Q) l :
  (forall x, In x l -> f x =t= g x) -> tsum (map f l) =t= tsum (map g l).
Proof.
  induction l as [|x r IH]; intros H; cbn [map tsum fold_right]; [reflexivity|].
  fold (tsum (map f r)) (tsum (map g r)).
  rewrite IH by (intros; apply H; right; assumption).
  rewrite (H x) by (left; reflexivity). reflexivity.
Qed.

Lemma tsum_map_add {A} (f g : A -> tor Q) l :
  tsum (map (fun x => tor_add (f x) (g x)) l) =t= tor_add (tsum (map f l)) (tsum (map g l)).
Proof.
  induction l as [|x r IH]; cbn [map tsum fold_right].
  - symmetry. apply tor_add_0_l.
  - fold (tsum (map (fun x => tor_add (f x) (g x)) r)) (tsum (map f r)) (tsum (map g r)).
    rewrite IH. apply tor_add_swap.
Qed.

Lemma tsum_map_zero {A} (l : list A) : tsum (map (fun _ => tor0) l) =t= tor0.
Proof.
  induction l as [|x r IH]; cbn [map tsum fold_right]; [reflexivity|].
  fold (tsum (map (fun _ : A => tor0 (F:=Q)) r)). rewrite IH. apply tor_add_0_l.
Qed.

Lemma tsum_swap {A B} (f : A -> B -> tor Q) (la : list A) (lb : list B) :
  tsum (map (fun a => tsum (map (fun b => f a b) lb)) la) =t=
  tsum (map (fun b => tsum (map (fun a => f a b) la)) lb).
Proof.
  induction la as [|a r IH]; cbn [map tsum fold_right].
  - symmetry. apply tsum_map_zero.
  - fold (tsum (map (fun a => tsum (map (fun b => f a b) lb)) r)).
    rewrite IH. symmetry. apply (tsum_map_add (fun b => f a b) (fun b => tsum (map (fun a => f a b) r))).
Qed.

(* a torsor moved from position t of the bar axis to the bar start *)
Definition move (L t : Q) (x : tor Q) : tor Q := (t_fx x, t_fy x, t_mz x + (t * L) * t_fy x).

#[export] Instance move_proper : Proper (Qeq ==> Qeq ==> tor_eq ==> tor_eq) move.
Proof.
  intros L L' HL t t' Ht a a' (H1 & H2 & H3). unfold move, tor_eq; cbn.
  rewrite HL, Ht, H1, H2, H3. repeat split; reflexivity.
Qed.

Lemma move_add L t a b : move L t (tor_add a b) =t= tor_add (move L t a) (move L t b).
Proof.
  destruct a as [[x y] z], b as [[x' y'] z']. unfold move. tor_crush. repeat split; ring.
Qed.
Lemma move_0 L t : move L t tor0 =t= tor0.
Proof. unfold move. tor_crush. repeat split; ring. Qed.

Lemma move_tsum L t l : move L t (tsum l) =t= tsum (map (move L t) l).
Proof.
  induction l as [|x r IH]; cbn [map tsum fold_right].
  - apply move_0.
  - fold (tsum r) (tsum (map (move L t) r)). rewrite move_add, IH. reflexivity.
Qed.

Lemma node_about_start_move (b : bar Q) nd :
  node_about_start b nd = move (b_L b) (pn_t nd) (pn_net nd).
Proof. reflexivity. Qed.

Lemma sum_about_start_tsum (b : bar Q) nodes :
  sum_about_start b nodes =t= tsum (map (node_about_start b) nodes).
Proof. unfold sum_about_start. rewrite fold_tsum. apply tor_add_0_l. Qed.

Lemma resultant_tsum (b : bar Q) :
  resultant b =t= tor_add (tsum (map (cl_resultant b) (b_cl b))) (tsum (map (dl_resultant b) (b_dl b))).
Proof.
  unfold resultant. rewrite fold_tsum, fold_tsum. rewrite tor_add_0_l. reflexivity.
Qed.

(* ---------- own weight ---------- *)

Lemma own_weight_resultant : forall (b : bar Q), wf_geom b ->
  let w := dl_resultant b (own_weight_load b) in
  tor_eq (resultant (with_own_weight b)) (tor_add (resultant b) w) /\
  (t_fx (to_global (b_c b) (b_s b) w) == 0)%Q /\
  (t_fy (to_global (b_c b) (b_s b) w) == - (b_rho b * b_A b * b_L b))%Q.
Proof.
  intros b (HL & Hc & Hs & Hcs) w. split; [|split].
  - unfold resultant. cbn [with_own_weight b_dl b_cl]. rewrite fold_left_app. cbn [fold_left].
    reflexivity.
  - subst w. unfold dl_resultant, own_weight_load, own_weight_gen, to_global, to_local, term_tor.
    cbn. field.
  - subst w. unfold dl_resultant, own_weight_load, own_weight_gen, to_global, to_local, term_tor.
    cbn.
    assert (Hs2 : b_s b * b_s b == 1 - b_c b * b_c b) by (rewrite <- Hcs; ring).
    field [Hs2].
Qed.

(* ---------- nodes ---------- *)

Lemma nas_mk (b : bar Q) t e : node_about_start b (mk_node b t e) =t= move (b_L b) t e.
Proof.
  destruct e as [[x y] z]. unfold node_about_start, move, pn_net, mk_node. tor_crush.
  repeat split; ring.
Qed.

Lemma sum_mk_zero (b : bar Q) ts :
  sum_about_start b (map (fun t => mk_node b t tor0) ts) =t= tor0.
Proof.
  rewrite sum_about_start_tsum, map_map.
  rewrite (tsum_map_ext _ (fun _ => tor0)); [apply tsum_map_zero|].
  intros t _. rewrite nas_mk. apply move_0.
Qed.

(* ---------- positions under eps_separated ---------- *)

Lemma sep_teq (b : bar Q) p q : eps_separated b -> In p (all_positions b) -> In q (all_positions b) ->
  teq p q = true -> p == q.
Proof.
  intros Hsep Hp Hq Ht. destruct (Hsep p q Hp Hq) as [H|H]; auto.
  apply teq_true in Ht. unfold eps in Ht. exfalso. lra.
Qed.

Lemma in_all_0 (b : bar Q) : In 0 (all_positions b).
Proof. left; reflexivity. Qed.
Lemma in_all_1 (b : bar Q) : In 1 (all_positions b).
Proof. right; left; reflexivity. Qed.
Lemma in_all_cl (b : bar Q) l : In l (b_cl b) -> In (cl_t l) (all_positions b).
Proof. intros H. unfold all_positions; cbn [app]. right; right. apply in_or_app. left. apply in_map. exact H. Qed.
Lemma in_all_dl0 (b : bar Q) l : In l (b_dl b) -> In (dl_t0 l) (all_positions b).
Proof.
  intros H. unfold all_positions; cbn [app]. right; right. apply in_or_app. right. apply in_flat_map. exists l. split; auto.
  left; reflexivity.
Qed.
Lemma in_all_dl1 (b : bar Q) l : In l (b_dl b) -> In (dl_t1 l) (all_positions b).
Proof.
  intros H. unfold all_positions; cbn [app]. right; right. apply in_or_app. right. apply in_flat_map. exists l. split; auto.
  right; left; reflexivity.
Qed.

(* ---------- axial bars ---------- *)

Lemma axial_fold (hit : cload Q -> bool) (T : cload Q -> tor Q) : forall cl acc, t_mz acc == 0 ->
  fold_left (fun acc l => if hit l then (t_fx acc + t_fx (T l), t_fy acc + t_fy (T l), 0) else acc) cl acc
  =t= tor_add acc (tsum (map (fun l => if hit l then (t_fx (T l), t_fy (T l), 0) else tor0) cl)).
Proof.
  induction cl as [|l r IH]; intros acc Hz; cbn [fold_left map tsum fold_right].
  - symmetry. apply tor_add_0_r.
  - fold (tsum (map (fun l => if hit l then (t_fx (T l), t_fy (T l), 0) else tor0) r)).
    rewrite IH.
    + rewrite <- tor_add_assoc. apply tor_add_proper; [|reflexivity].
      destruct (hit l).
      * destruct acc as [[x y] z]. tor_crush. repeat split; try reflexivity. rewrite Hz. ring.
      * symmetry. apply tor_add_0_r.
    + destruct (hit l); [reflexivity | assumption].
Qed.

Lemma axial_end_load_tsum (b : bar Q) (s : bool) :
  axial_end_load b s =t=
  tsum (map (fun l => if (if s then is_min (cl_t l) else negb (is_min (cl_t l)) && is_max (cl_t l))
                      then (t_fx (cl_local_tor (b_c b) (b_s b) l), t_fy (cl_local_tor (b_c b) (b_s b) l), 0)
                      else tor0) (b_cl b)).
Proof.
  unfold axial_end_load.
  rewrite (axial_fold (fun l => if s then is_min (cl_t l) else negb (is_min (cl_t l)) && is_max (cl_t l))
             (cl_local_tor (b_c b) (b_s b)) (b_cl b) tor0) by reflexivity.
  apply tor_add_0_l.
Qed.

Lemma axial_cl_facts (b : bar Q) : is_axial b = true ->
  forall l, In l (b_cl b) -> cl_nodal l = true /\ cl_term l <> MZ.
Proof.
  unfold is_axial. destruct (b_dl b) as [|d r]; [|discriminate]. intros H l Hl.
  apply andb_true_iff in H. destruct H as [H _]. apply andb_true_iff in H. destruct H as [H _].
  rewrite forallb_forall in H. specialize (H l Hl).
  apply andb_true_iff in H. destruct H as [H1 H2]. split; auto.
  intro E. rewrite E in H2. discriminate.
Qed.

Lemma min_max_excl (t : Q) : is_min t = true -> is_max t = true -> False.
Proof.
  unfold is_min, is_max. intros H0 H1. apply teq_true in H0, H1.
  change (@n0 Q QOps) with 0 in H0. change (@n1 Q QOps) with 1 in H1. qabs.
Qed.

Lemma axial_equivalence (b : bar Q) : eps_separated b -> is_axial b = true -> has_loads b = true ->
  sum_about_start b [mk_node b 0 (axial_end_load b true); mk_node b 1 (axial_end_load b false)]
  =t= resultant b.
Proof.
  intros Hsep Hax Hl.
  destruct (axial_facts b Hax) as [Hdl _].
  pose proof (axial_cl_facts b Hax) as Hcl.
  rewrite resultant_tsum, Hdl. cbn [map tsum fold_right]. rewrite tor_add_0_r.
  rewrite sum_about_start_tsum. cbn [map tsum fold_right]. rewrite tor_add_0_r.
  rewrite !nas_mk, !axial_end_load_tsum, !move_tsum, !map_map.
  rewrite <- tsum_map_add. apply tsum_map_ext. intros l Hin.
  destruct (Hcl l Hin) as [Hn Hm].
  unfold cl_nodal in Hn.
  assert (H0 : is_min (cl_t l) = true -> cl_t l == 0).
  { intros H. apply (sep_teq b); auto using in_all_cl, in_all_0. }
  assert (H1 : is_max (cl_t l) = true -> cl_t l == 1).
  { intros H. apply (sep_teq b); auto using in_all_cl, in_all_1. }
  assert (Hz : t_mz (cl_local_tor (b_c b) (b_s b) l) == 0).
  { unfold cl_local_tor, term_tor, to_local. destruct (cl_term l); try congruence; destruct (cl_local l); reflexivity. }
  unfold cl_resultant. set (T := cl_local_tor (b_c b) (b_s b) l) in *. clearbody T.
  destruct T as [[x y] z].
  destruct (is_min (cl_t l)) eqn:Emin.
  - specialize (H0 eq_refl). unfold move. tor_crush. rewrite H0, Hz. repeat split; ring.
  - rewrite orb_false_l in Hn. specialize (H1 Hn). rewrite Hn. cbn [negb andb]. unfold move. tor_crush. rewrite H1, Hz. repeat split; ring.
Qed.

(* ---------- distributing the loads along the chain ---------- *)

Fixpoint psum (W : Q -> Q -> tor Q) (a : Q) (rest : list Q) : tor Q :=
  match rest with
  | [] => tor0
  | c :: r => tor_add (W a c) (psum W c r)
  end.

Lemma psum_ext (W W' : Q -> Q -> tor Q) : (forall x y, W x y =t= W' x y) ->
  forall rest a, psum W a rest =t= psum W' a rest.
Proof.
  intros H. induction rest as [|c r IH]; intros a; cbn [psum]; [reflexivity|].
  rewrite H, IH. reflexivity.
Qed.

Lemma psum_tsum {A} (W : A -> Q -> Q -> tor Q) (dl : list A) : forall rest a,
  psum (fun x y => tsum (map (fun l => W l x y) dl)) a rest =t=
  tsum (map (fun l => psum (W l) a rest) dl).
Proof.
  induction rest as [|c r IH]; intros a; cbn [psum].
  - symmetry. apply tsum_map_zero.
  - rewrite IH. symmetry. apply (tsum_map_add (fun l => W l a c) (fun l => psum (W l) c r)).
Qed.

(* one distributed load on one finite element, both nodal loads moved to the bar start *)
Definition W1 (b : bar Q) (l : dload Q) (ta tb : Q) : tor Q :=
  let p := dl_lump b l ta tb in
  tor_add (move (b_L b) ta (fst p)) (move (b_L b) tb (snd p)).
Definition Wtot (b : bar Q) (dl : list (dload Q)) (ta tb : Q) : tor Q :=
  let p := slice_lumps b dl ta tb in
  tor_add (move (b_L b) ta (fst p)) (move (b_L b) tb (snd p)).

Lemma slice_lumps_fold (b : bar Q) (ta tb : Q) : forall dl acc,
  let r := fold_left (fun acc l => let p := dl_lump b l ta tb in
                          (tor_add (fst acc) (fst p), tor_add (snd acc) (snd p))) dl acc in
  fst r =t= tor_add (fst acc) (tsum (map (fun l => fst (dl_lump b l ta tb)) dl)) /\
  snd r =t= tor_add (snd acc) (tsum (map (fun l => snd (dl_lump b l ta tb)) dl)).
Proof.
  induction dl as [|l r IH]; intros acc; cbn [fold_left map tsum fold_right].
  - split; symmetry; apply tor_add_0_r.
  - destruct (IH (tor_add (fst acc) (fst (dl_lump b l ta tb)), tor_add (snd acc) (snd (dl_lump b l ta tb))))
      as [I1 I2].
    cbv zeta in I1, I2 |- *. cbn [fst snd] in I1, I2.
    split; [rewrite I1 | rewrite I2]; apply tor_add_assoc.
Qed.

Lemma Wtot_tsum (b : bar Q) dl ta tb : Wtot b dl ta tb =t= tsum (map (fun l => W1 b l ta tb) dl).
Proof.
  unfold Wtot, slice_lumps. cbv zeta.
  destruct (slice_lumps_fold b ta tb dl (tor0, tor0)) as [I1 I2]. cbv zeta in I1, I2. cbn [fst snd] in I1, I2.
  rewrite I1, I2, !tor_add_0_l, !move_tsum, !map_map.
  unfold W1. symmetry.
  apply (tsum_map_add (fun l => move (b_L b) ta (fst (dl_lump b l ta tb)))
                      (fun l => move (b_L b) tb (snd (dl_lump b l ta tb)))).
Qed.

Lemma nas_add_left (b : bar Q) n t :
  node_about_start b (add_left n t) =t= tor_add (node_about_start b n) (move (b_L b) (pn_t n) t).
Proof.
  destruct n as [pt px py [[e1 e2] e3] [[l1 l2] l3] [[r1 r2] r3]], t as [[x y] z].
  unfold node_about_start, add_left, pn_net, move. tor_crush. repeat split; ring.
Qed.
Lemma nas_add_right (b : bar Q) n t :
  node_about_start b (add_right n t) =t= tor_add (node_about_start b n) (move (b_L b) (pn_t n) t).
Proof.
  destruct n as [pt px py [[e1 e2] e3] [[l1 l2] l3] [[r1 r2] r3]], t as [[x y] z].
  unfold node_about_start, add_right, pn_net, move. tor_crush. repeat split; ring.
Qed.

Lemma tor_shuffle (a b c d e f : tor Q) :
  tor_add (tor_add a b) (tor_add (tor_add (tor_add c d) e) f) =t=
  tor_add (tor_add a (tor_add c e)) (tor_add (tor_add b d) f).
Proof.
  destruct a as [[a1 a2] a3], b as [[b1 b2] b3], c as [[c1 c2] c3], d as [[d1 d2] d3],
           e as [[e1 e2] e3], f as [[f1 f2] f3].
  tor_crush. repeat split; ring.
Qed.

Lemma apply_dist_from_sum (b : bar Q) dl : forall rest a,
  tsum (map (node_about_start b) (apply_dist_from b dl a rest)) =t=
  tor_add (tsum (map (node_about_start b) (a :: rest)))
          (psum (Wtot b dl) (pn_t a) (map (@pn_t Q) rest)).
Proof.
  induction rest as [|c r IH]; intros a.
  - cbn [apply_dist_from map psum]. symmetry. apply tor_add_0_r.
  - cbn [apply_dist_from map psum tsum fold_right].
    fold (tsum (map (node_about_start b) (apply_dist_from b dl (add_right c (snd (slice_lumps b dl (pn_t a) (pn_t c)))) r))).
    fold (tsum (map (node_about_start b) r)).
    rewrite IH. cbn [map tsum fold_right]. fold (tsum (map (node_about_start b) r)).
    rewrite nas_add_left, nas_add_right.
    change (pn_t (add_right c (snd (slice_lumps b dl (pn_t a) (pn_t c))))) with (pn_t c).
    unfold Wtot at 2. cbv zeta.
    apply tor_shuffle.
Qed.

Lemma apply_dist_sum (b : bar Q) dl (e : Q -> tor Q) h rest :
  sum_about_start b (apply_dist b dl (map (fun t => mk_node b t (e t)) (h :: rest))) =t=
  tor_add (tsum (map (fun t => move (b_L b) t (e t)) (h :: rest)))
          (tsum (map (fun l => psum (W1 b l) h rest) dl)).
Proof.
  rewrite sum_about_start_tsum.
  change (map (fun t => mk_node b t (e t)) (h :: rest))
    with (mk_node b h (e h) :: map (fun t => mk_node b t (e t)) rest) at 1.
  cbn [apply_dist].
  rewrite apply_dist_from_sum. apply tor_add_proper.
  - change (mk_node b h (e h) :: map (fun t => mk_node b t (e t)) rest)
      with (map (fun t => mk_node b t (e t)) (h :: rest)).
    rewrite map_map. apply tsum_map_ext. intros t _. apply nas_mk.
  - change (pn_t (mk_node b h (e h))) with h.
    rewrite (map_pn_t_mk b e rest).
    rewrite (psum_ext _ _ (Wtot_tsum b dl)). apply psum_tsum.
Qed.

(* ---------- concentrated loads ---------- *)

Lemma fold_cond {A} (c : A -> bool) (X : A -> tor Q) : forall l acc,
  fold_left (fun acc x => if c x then tor_add acc (X x) else acc) l acc =t=
  tor_add acc (tsum (map (fun x => if c x then X x else tor0) l)).
Proof.
  induction l as [|x r IH]; intros acc; cbn [fold_left map tsum fold_right].
  - symmetry. apply tor_add_0_r.
  - rewrite IH. fold (tsum (map (fun x => if c x then X x else tor0) r)).
    rewrite <- tor_add_assoc. apply tor_add_proper; [|reflexivity].
    destruct (c x); [reflexivity | symmetry; apply tor_add_0_r].
Qed.

Lemma ext_at_tsum (b : bar Q) t :
  ext_at b t =t= tsum (map (fun l => if teq t (cl_t l) then cl_local_tor (b_c b) (b_s b) l else tor0) (b_cl b)).
Proof.
  unfold ext_at.
  rewrite (fold_cond (fun l => teq t (cl_t l)) (cl_local_tor (b_c b) (b_s b))). apply tor_add_0_l.
Qed.

Lemma ext_one_none (L p : Q) (X : tor Q) : forall ts, (forall t, In t ts -> eps <= Qabs (t - p)) ->
  tsum (map (fun t => move L t (if teq t p then X else tor0)) ts) =t= tor0.
Proof.
  induction ts as [|h r IH]; intros H; cbn [map tsum fold_right]; [reflexivity|].
  fold (tsum (map (fun t => move L t (if teq t p then X else tor0)) r)).
  rewrite IH by (intros; apply H; right; assumption).
  assert (E : teq h p = false) by (apply teq_false, H; left; reflexivity).
  rewrite E, move_0. apply tor_add_0_l.
Qed.

Lemma ext_one (L p : Q) (X : tor Q) : forall ts, increasing ts ->
  (forall t, In t ts -> t == p \/ eps <= Qabs (t - p)) ->
  (exists k, In k ts /\ k == p) ->
  tsum (map (fun t => move L t (if teq t p then X else tor0)) ts) =t= move L p X.
Proof.
  induction ts as [|h r IH]; intros Hinc Hd (k & Hk & Hkp); [destruct Hk|].
  cbn [map tsum fold_right].
  fold (tsum (map (fun t => move L t (if teq t p then X else tor0)) r)).
  inversion Hinc as [|? ? Hinc' Hf]; subst. rewrite Forall_forall in Hf.
  destruct (Hd h (or_introl eq_refl)) as [Hh|Hh].
  - assert (E : teq h p = true) by (apply teq_true; qabs).
    rewrite E. rewrite ext_one_none.
    + rewrite tor_add_0_r, Hh. reflexivity.
    + intros t Ht. specialize (Hf t Ht). qabs.
  - assert (E : teq h p = false) by (apply teq_false; assumption).
    rewrite E, move_0, tor_add_0_l. apply IH; auto.
    + intros t Ht. apply Hd. right; assumption.
    + destruct Hk as [<-|Hk]; [exfalso; qabs|]. exists k. split; assumption.
Qed.

(* ---------- the positions of a loaded bar under eps_separated ---------- *)

Lemma spans_unit (b : bar Q) : spans_ok b -> loads_in_unit (b_cl b) (b_dl b).
Proof.
  intros [Hc Hd]. split.
  - intros l Hl. exact (Hc l Hl).
  - intros l Hl. destruct (Hd l Hl) as (H0 & H1 & H2). unfold in_unit. split; split; lra.
Qed.

Lemma dedupe_in (l : list Q) k : In k (dedupe l) -> In k l.
Proof.
  destruct l as [|x r]; [intros []|]. cbn [dedupe]. intros [<-|H]; [left; reflexivity|].
  right. eapply dd_in; eassumption.
Qed.

Lemma not_extreme_or (t : Q) : is_extreme t = true -> teq t 0 = true \/ teq t 1 = true.
Proof.
  unfold is_extreme, is_max, is_min. intros H. apply orb_true_iff in H. destruct H; auto.
Qed.

Lemma req_all (b : bar Q) r : In r (required_positions (b_cl b) (b_dl b)) -> In r (all_positions b).
Proof.
  unfold required_positions. cbn [app]. intros [<-|[<-|H]].
  - apply in_all_0.
  - apply in_all_1.
  - apply in_app_or in H. destruct H as [H|H].
    + apply cpos_in in H. destruct H as (l & Hl & -> & _). apply in_all_cl, Hl.
    + apply dpos_in in H. destruct H as (l & Hl & [-> | ->] & _); [apply in_all_dl0 | apply in_all_dl1]; exact Hl.
Qed.

Lemma all_req (b : bar Q) p : eps_separated b -> In p (all_positions b) ->
  exists r, In r (required_positions (b_cl b) (b_dl b)) /\ r == p.
Proof.
  intros Hsep Hp.
  destruct (is_extreme p) eqn:E.
  - apply not_extreme_or in E. destruct E as [E|E].
    + exists 0. split; [left; reflexivity|]. symmetry. apply (sep_teq b); auto using in_all_0.
    + exists 1. split; [right; left; reflexivity|]. symmetry. apply (sep_teq b); auto using in_all_1.
  - apply is_extreme_false in E. exists p. split; [|reflexivity].
    unfold all_positions in Hp. cbn [app] in Hp. unfold required_positions. cbn [app].
    destruct Hp as [<-|[<-|Hp]]; [left; reflexivity | right; left; reflexivity |].
    right; right. apply in_or_app. apply in_app_or in Hp. destruct Hp as [Hp|Hp].
    + left. apply in_map_iff in Hp. destruct Hp as (l & <- & Hl). apply cpos_intro; assumption.
    + right. apply in_flat_map in Hp. destruct Hp as (l & Hl & [<-|[<-|[]]]).
      * apply dpos_intro0; assumption.
      * apply dpos_intro1; assumption.
Qed.

Lemma all_unit (b : bar Q) p : spans_ok b -> In p (all_positions b) -> 0 <= p <= 1.
Proof.
  intros [Hc Hd] Hp. unfold all_positions in Hp. cbn [app] in Hp.
  destruct Hp as [<-|[<-|Hp]]; [lra | lra |].
  apply in_app_or in Hp. destruct Hp as [Hp|Hp].
  - apply in_map_iff in Hp. destruct Hp as (l & <- & Hl). apply Hc, Hl.
  - apply in_flat_map in Hp. destruct Hp as (l & Hl & Hq). destruct (Hd l Hl) as (H0 & H1 & H2).
    destruct Hq as [<-|[<-|[]]]; lra.
Qed.

Definition ts_of (b : bar Q) : list Q := slice_positions (b_cl b) (b_dl b) c_slices_loaded.

Lemma ts_facts (b : bar Q) : spans_ok b -> eps_separated b ->
  increasing (ts_of b) /\
  (exists h rest, ts_of b = h :: rest) /\
  (forall t, In t (ts_of b) -> 0 <= t <= 1) /\
  (forall t p, In t (ts_of b) -> In p (all_positions b) -> t == p \/ eps <= Qabs (t - p)) /\
  (forall p, In p (all_positions b) -> exists k, In k (ts_of b) /\ k == p).
Proof.
  intros Hsp Hsep.
  assert (Hn : (0 < c_slices_loaded)%nat) by (unfold c_slices_loaded; lia).
  destruct (slice_positions_ok (b_cl b) (b_dl b) c_slices_loaded (spans_unit b Hsp) Hn) as [Hch _].
  destruct Hch as (Hfirst & _ & Hinc & _).
  fold (ts_of b) in Hfirst, Hinc.
  set (req := required_positions (b_cl b) (b_dl b)).
  set (flt := filter (far_from_all req) (uniform c_slices_loaded)).
  assert (Hmem : forall t, In t (ts_of b) -> In t req \/ In t flt).
  { intros t Ht. unfold ts_of, slice_positions in Ht. apply dedupe_in in Ht.
    apply (Permutation_in _ (Permutation_sym (sort_perm _))) in Ht.
    apply in_app_or in Ht. exact Ht. }
  assert (Hdich : forall t p, In t (ts_of b) -> In p (all_positions b) -> t == p \/ eps <= Qabs (t - p)).
  { intros t p Ht Hp. destruct (Hmem t Ht) as [Hr|Hf].
    - apply Hsep; auto. apply req_all, Hr.
    - right. unfold flt in Hf. apply filter_In in Hf. destruct Hf as [_ Hf].
      destruct (all_req b p Hsep Hp) as (r & Hr & Hrp).
      pose proof (far_in req t r Hf Hr) as Hfar. qabs. }
  split; [exact Hinc|]. split.
  { destruct Hfirst as (h & rest & E & _). exists h, rest. exact E. }
  split.
  { intros t Ht. destruct (Hmem t Ht) as [Hr|Hf].
    - apply (all_unit b); auto. apply req_all, Hr.
    - unfold flt in Hf. apply filter_In in Hf. destruct Hf as [Hu _]. apply uniform_unit in Hu. exact Hu. }
  split; [exact Hdich|].
  intros p Hp. destruct (all_req b p Hsep Hp) as (r & Hr & Hrp).
  assert (HinS : In r (sort (req ++ flt))).
  { apply (Permutation_in _ (sort_perm _)). apply in_or_app. left. exact Hr. }
  apply dedupe_cover in HinS. destruct HinS as (k & Hk & Hkd).
  exists k. split; [exact Hk|].
  assert (Hk' : In k (ts_of b)) by exact Hk.
  destruct (Hdich k r Hk' (req_all b r Hr)) as [H|H]; [|exfalso; qabs].
  rewrite H. exact Hrp.
Qed.

Lemma ext_part (b : bar Q) : spans_ok b -> eps_separated b ->
  tsum (map (fun t => move (b_L b) t (ext_at b t)) (ts_of b)) =t= tsum (map (cl_resultant b) (b_cl b)).
Proof.
  intros Hsp Hsep. destruct (ts_facts b Hsp Hsep) as (Hinc & _ & _ & Hdich & Hex).
  rewrite (tsum_map_ext _ (fun t => tsum (map (fun l => move (b_L b) t
             (if teq t (cl_t l) then cl_local_tor (b_c b) (b_s b) l else tor0)) (b_cl b)))).
  2:{ intros t _. rewrite ext_at_tsum, move_tsum, map_map. reflexivity. }
  rewrite (tsum_swap (fun t l => move (b_L b) t (if teq t (cl_t l) then cl_local_tor (b_c b) (b_s b) l else tor0))).
  apply tsum_map_ext. intros l Hl.
  rewrite ext_one; [reflexivity | exact Hinc | |].
  - intros t Ht. apply Hdich; auto using in_all_cl.
  - apply Hex. auto using in_all_cl.
Qed.

(* ---------- one distributed load: closed form over a sub-interval ---------- *)

Definition lin (l : dload Q) (t : Q) : Q :=
  dl_v0 l + (t - dl_t0 l) * (dl_v1 l - dl_v0 l) / (dl_t1 l - dl_t0 l).
Definition Itor (b : bar Q) (l : dload Q) (t : Q) : tor Q :=
  let tt := term_tor (dl_term l) (lin l t) in
  if dl_local l then tt else to_local (b_c b) (b_s b) tt.
Definition GG (L : Q) (s e : tor Q) (x y : Q) : tor Q :=
  ((t_fx s + t_fx e) / 2 * (L * (y - x)),
   (t_fy s + t_fy e) / 2 * (L * (y - x)),
   (t_mz s + t_mz e) / 2 * (L * (y - x))
   + L * L * (y - x) * (t_fy s * (2 * x + y) + t_fy e * (x + 2 * y)) / 6).
Definition G (b : bar Q) (l : dload Q) (x y : Q) : tor Q := GG (b_L b) (Itor b l x) (Itor b l y) x y.

Ltac G_unfold := unfold G, GG, Itor, lin, term_tor, to_local, tor_eq, tor_add, tor0, t_fx, t_fy, t_mz; cbn.

Lemma G_resultant (b : bar Q) l : dl_t0 l < dl_t1 l -> dl_resultant b l =t= G b l (dl_t0 l) (dl_t1 l).
Proof.
  intros Hlt. assert (Hne : ~ dl_t1 l - dl_t0 l == 0) by lra.
  destruct l as [tm lc t0 v0 t1 v1]. cbn in Hlt, Hne.
  unfold dl_resultant. destruct tm, lc; G_unfold; repeat split; field; exact Hne.
Qed.

Lemma G_add (b : bar Q) l x y z : dl_t0 l < dl_t1 l ->
  tor_add (G b l x y) (G b l y z) =t= G b l x z.
Proof.
  intros Hlt. assert (Hne : ~ dl_t1 l - dl_t0 l == 0) by lra.
  destruct l as [tm lc t0 v0 t1 v1]. cbn in Hlt, Hne.
  destruct tm, lc; G_unfold; repeat split; field; exact Hne.
Qed.

Lemma G_proper (b : bar Q) l x x' y y' : x == x' -> y == y' -> G b l x y =t= G b l x' y'.
Proof.
  intros Hx Hy. destruct l as [tm lc t0 v0 t1 v1].
  destruct tm, lc; G_unfold; rewrite Hx, Hy; repeat split; reflexivity.
Qed.

Lemma G_diag (b : bar Q) l x y : dl_t0 l < dl_t1 l -> x == y -> G b l x y =t= tor0.
Proof.
  intros Hlt Hxy. assert (Hne : ~ dl_t1 l - dl_t0 l == 0) by lra.
  rewrite (G_proper b l x y y y Hxy (Qeq_refl y)).
  destruct l as [tm lc t0 v0 t1 v1]. cbn in Hlt, Hne.
  destruct tm, lc; G_unfold; repeat split; field; exact Hne.
Qed.

(* ---------- one finite element ---------- *)
Lemma nltb_true (a b : Q) : nltb a b = true <-> a < b.
Proof. cbn. rewrite negb_true_iff. apply Qle_bool_false. Qed.
Lemma nltb_false (a b : Q) : nltb a b = false <-> b <= a.
Proof. cbn. rewrite negb_false_iff. apply Qle_bool_iff. Qed.

Lemma clampT_id (t : Q) : 0 <= t -> t <= 1 -> clampT t = t.
Proof.
  intros H0 H1. unfold clampT.
  assert (E0 : nltb t n0 = false) by (apply nltb_false; exact H0).
  assert (E1 : nltb n1 t = false) by (apply nltb_false; exact H1).
  rewrite E0, E1. reflexivity.
Qed.

Lemma half_mid (ta tb : Q) : (nofZ 1 / nofZ 2 * (ta + tb))%num == (1 # 2) * (ta + tb).
Proof. cbn. field. Qed.

Lemma in_span_true (l : dload Q) ta tb : 0 <= ta -> ta < tb -> tb <= 1 ->
  dl_t0 l <= ta -> tb <= dl_t1 l -> in_span l ta tb = true.
Proof.
  intros H0 Hlt H1 Ha Hb. unfold in_span. cbv zeta.
  pose proof (half_mid ta tb) as Hm.
  rewrite clampT_id by (rewrite Hm; lra).
  apply negb_true_iff, orb_false_iff. split; apply nltb_false; rewrite Hm; lra.
Qed.

Lemma in_span_false (l : dload Q) ta tb : 0 <= ta -> ta < tb -> tb <= 1 ->
  tb <= dl_t0 l \/ dl_t1 l <= ta -> in_span l ta tb = false.
Proof.
  intros H0 Hlt H1 Hor. unfold in_span. cbv zeta.
  pose proof (half_mid ta tb) as Hm.
  rewrite clampT_id by (rewrite Hm; lra).
  apply negb_false_iff, orb_true_iff. destruct Hor; [left|right]; apply nltb_true; rewrite Hm; lra.
Qed.

Lemma dl_value_at_lin (l : dload Q) t : dl_t0 l <= t -> t <= dl_t1 l -> dl_value_at l t = lin l t.
Proof.
  intros H0 H1. unfold dl_value_at.
  assert (E0 : nltb t (dl_t0 l) = false) by (apply nltb_false; exact H0).
  assert (E1 : nltb (dl_t1 l) t = false) by (apply nltb_false; exact H1).
  rewrite E0, E1. reflexivity.
Qed.

Lemma dl_tor_at_Itor (b : bar Q) l t : dl_t0 l <= t -> t <= dl_t1 l ->
  dl_tor_at (b_c b) (b_s b) l t = Itor b l t.
Proof. intros H0 H1. unfold dl_tor_at, Itor. rewrite dl_value_at_lin by assumption. reflexivity. Qed.

Lemma slice_len_eq (b : bar Q) ta tb : wf_geom b -> slice_len b ta tb == b_L b * (tb - ta).
Proof.
  intros (HL & Hc & Hs & Hcs). unfold slice_len, point_at. cbn.
  rewrite <- Hc, <- Hs.
  assert (Hs2 : b_s b * b_s b == 1 - b_c b * b_c b) by (rewrite <- Hcs; ring).
  field [Hs2].
Qed.

Lemma W1_out (b : bar Q) l ta tb : 0 <= ta -> ta < tb -> tb <= 1 ->
  tb <= dl_t0 l \/ dl_t1 l <= ta -> W1 b l ta tb =t= tor0.
Proof.
  intros H0 Hlt H1 Hor. unfold W1, dl_lump. rewrite in_span_false by assumption.
  cbv zeta. cbn [fst snd]. rewrite !move_0. apply tor_add_0_l.
Qed.

Lemma W1_in (b : bar Q) l ta tb : wf_geom b -> 0 <= ta -> ta < tb -> tb <= 1 ->
  dl_t0 l <= ta -> tb <= dl_t1 l -> W1 b l ta tb =t= G b l ta tb.
Proof.
  intros Hwf H0 Hlt H1 Ha Hb.
  pose proof (slice_len_eq b ta tb Hwf) as Hlen.
  assert (HL : 0 < b_L b) by (destruct Hwf; assumption).
  unfold W1, dl_lump. rewrite in_span_true by assumption. cbv zeta.
  rewrite !dl_tor_at_Itor by lra.
  unfold G. set (s := Itor b l ta). set (e := Itor b l tb). clearbody s e.
  assert (Hne : ~ slice_len b ta tb == 0).
  { rewrite Hlen. intro E. assert (0 < b_L b * (tb - ta)) by (apply Qmult_lt_0_compat; lra). lra. }
  pose proof (lump_equivalent_Q (t_fx s) (t_fy s) (t_mz s) (t_fx e) (t_fy e) (t_mz e) (slice_len b ta tb) Hne)
    as (E1 & E2 & E3).
  cbv zeta in E1, E2, E3.
  set (r := lump_gen (t_fx s) (t_fy s) (t_mz s) (t_fx e) (t_fy e) (t_mz e) (slice_len b ta tb)) in *.
  clearbody r. destruct r as [[[A B] C] [[D E] F]].
  destruct s as [[s1 s2] s3], e as [[e1 e2] e3].
  unfold GG, move. tor_crush. rewrite Hlen in E1, E2, E3.
  split; [|split].
  - rewrite E1. reflexivity.
  - rewrite E2. reflexivity.
  - transitivity ((C + F + b_L b * (tb - ta) * E) + ta * b_L b * (B + E)); [ring|].
    rewrite E3, E2. field.
Qed.

(* ---------- telescoping along the chain ---------- *)

(* the part of the load to the left of x, about the bar start *)
Definition Hc (b : bar Q) (l : dload Q) (x : Q) : tor Q :=
  if Qle_bool x (dl_t0 l) then tor0
  else if Qle_bool (dl_t1 l) x then G b l (dl_t0 l) (dl_t1 l) else G b l (dl_t0 l) x.

Lemma Hc_low (b : bar Q) l x : x <= dl_t0 l -> Hc b l x = tor0.
Proof. intros H. unfold Hc. apply Qle_bool_iff in H. rewrite H. reflexivity. Qed.

Lemma Hc_high (b : bar Q) l x : dl_t0 l < dl_t1 l -> dl_t1 l <= x -> Hc b l x = G b l (dl_t0 l) (dl_t1 l).
Proof.
  intros Hlt H. unfold Hc.
  assert (E : Qle_bool x (dl_t0 l) = false) by (apply Qle_bool_false; lra).
  apply Qle_bool_iff in H. rewrite E, H. reflexivity.
Qed.

Lemma Hc_mid (b : bar Q) l x : dl_t0 l < dl_t1 l -> dl_t0 l <= x -> x <= dl_t1 l ->
  Hc b l x =t= G b l (dl_t0 l) x.
Proof.
  intros Hlt H0 H1. unfold Hc.
  destruct (Qle_bool x (dl_t0 l)) eqn:E0.
  - apply Qle_bool_iff in E0. symmetry. apply G_diag; auto. lra.
  - destruct (Qle_bool (dl_t1 l) x) eqn:E1; [|reflexivity].
    apply Qle_bool_iff in E1. apply G_proper; [reflexivity | lra].
Qed.

Lemma Hc_step (b : bar Q) l ta tb : wf_geom b -> dl_t0 l < dl_t1 l ->
  0 <= ta -> ta + eps <= tb -> tb <= 1 ->
  (dl_t0 l <= ta \/ tb <= dl_t0 l) -> (dl_t1 l <= ta \/ tb <= dl_t1 l) ->
  tor_add (Hc b l ta) (W1 b l ta tb) =t= Hc b l tb.
Proof.
  intros Hwf Hlt H0 Hgap H1 Hor0 Hor1.
  assert (Hab : ta < tb) by (unfold eps in Hgap; lra).
  destruct Hor0 as [Ha|Ha].
  - destruct Hor1 as [Hb|Hb].
    + rewrite W1_out by auto. rewrite !Hc_high by lra. apply tor_add_0_r.
    + rewrite W1_in by auto. rewrite !Hc_mid by lra. apply G_add. exact Hlt.
  - rewrite W1_out by auto. rewrite !Hc_low by lra. apply tor_add_0_r.
Qed.

Lemma last_cons : forall (r : list Q) (c a : Q), last (c :: r) a = last r c.
Proof.
  induction r as [|d r' IH]; intros c a; [reflexivity|].
  transitivity (last (d :: r') a); [reflexivity|].
  rewrite (IH d a), (IH d c). reflexivity.
Qed.

Definition node_or_left (a : Q) (rest : list Q) (p : Q) : Prop :=
  (exists k, In k (a :: rest) /\ k == p) \/ p <= a.

Lemma telescope (H : Q -> tor Q) (W : Q -> Q -> tor Q) (p0 p1 : Q) :
  (forall ta tb, 0 <= ta -> ta + eps <= tb -> tb <= 1 -> (p0 <= ta \/ tb <= p0) -> (p1 <= ta \/ tb <= p1) ->
     tor_add (H ta) (W ta tb) =t= H tb) ->
  forall rest a, increasing (a :: rest) -> (forall t, In t (a :: rest) -> 0 <= t <= 1) ->
    node_or_left a rest p0 -> node_or_left a rest p1 ->
    tor_add (H a) (psum W a rest) =t= H (last rest a).
Proof.
  intros Hstep. induction rest as [|c r IH]; intros a Hinc Hu N0 N1.
  - cbn [psum last]. apply tor_add_0_r.
  - cbn [psum]. rewrite last_cons.
    inversion Hinc as [|? ? Hinc' Hf]; subst. rewrite Forall_forall in Hf.
    assert (Hac : a + eps <= c) by (apply Hf; left; reflexivity).
    assert (Hinc2 : increasing (c :: r)) by exact Hinc'.
    inversion Hinc' as [|? ? _ Hf2]; subst. rewrite Forall_forall in Hf2.
    assert (Hnext : forall p, node_or_left a (c :: r) p ->
              (p <= a \/ c <= p) /\ node_or_left c r p).
    { intros p [(k & Hk & Hkp)|Hp].
      - destruct Hk as [<-|Hk].
        + split; [left; lra|]. right. unfold eps in Hac. lra.
        + split.
          * right. destruct Hk as [<-|Hk]; [lra|]. specialize (Hf2 k Hk). unfold eps in Hf2. lra.
          * left. exists k. split; assumption.
      - split; [left; exact Hp|]. right. unfold eps in Hac. lra. }
    destruct (Hnext p0 N0) as [S0 N0']. destruct (Hnext p1 N1) as [S1 N1'].
    rewrite <- tor_add_assoc. rewrite Hstep.
    + apply IH; auto. intros t Ht. apply Hu. right; exact Ht.
    + apply Hu. left; reflexivity.
    + exact Hac.
    + apply Hu. right; left; reflexivity.
    + destruct S0; [left|right]; lra.
    + destruct S1; [left|right]; lra.
Qed.

Lemma sorted_last : forall rest (a k : Q), increasing (a :: rest) -> In k (a :: rest) -> k <= last rest a.
Proof.
  induction rest as [|c r IH]; intros a k Hinc Hk.
  - destruct Hk as [<-|[]]. cbn. lra.
  - rewrite last_cons.
    inversion Hinc as [|? ? Hinc' Hf]; subst. rewrite Forall_forall in Hf.
    destruct Hk as [<-|Hk].
    + assert (Hac : a + eps <= c) by (apply Hf; left; reflexivity).
      assert (c <= last r c) by (apply IH; auto; left; reflexivity). unfold eps in Hac. lra.
    + apply IH; auto.
Qed.

Lemma sorted_first (rest : list Q) (a k : Q) : increasing (a :: rest) -> In k (a :: rest) -> a <= k.
Proof.
  intros Hinc Hk. inversion Hinc as [|? ? _ Hf]; subst. rewrite Forall_forall in Hf.
  destruct Hk as [<-|Hk]; [lra|]. specialize (Hf k Hk). unfold eps in Hf. lra.
Qed.

Lemma dl_part (b : bar Q) l h rest : wf_geom b -> spans_ok b -> eps_separated b ->
  ts_of b = h :: rest -> In l (b_dl b) ->
  psum (W1 b l) h rest =t= dl_resultant b l.
Proof.
  intros Hwf Hsp Hsep Hts Hl.
  destruct (ts_facts b Hsp Hsep) as (Hinc & _ & Hu & _ & Hex).
  rewrite Hts in Hinc, Hu, Hex.
  destruct Hsp as [_ Hd]. destruct (Hd l Hl) as (Ht0 & Hlt & Ht1).
  destruct (Hex 0 (in_all_0 b)) as (z0 & Hz0 & Ez0).
  destruct (Hex 1 (in_all_1 b)) as (z1 & Hz1 & Ez1).
  pose proof (sorted_first rest h z0 Hinc Hz0) as Hh0.
  pose proof (sorted_last rest h z1 Hinc Hz1) as Hl1.
  pose proof (telescope (Hc b l) (W1 b l) (dl_t0 l) (dl_t1 l)
                (fun ta tb A B C D E => Hc_step b l ta tb Hwf Hlt A B C D E) rest h Hinc Hu) as T.
  rewrite Hc_low in T by lra. rewrite Hc_high in T by lra.
  rewrite tor_add_0_l in T. rewrite T.
  - symmetry. apply G_resultant. exact Hlt.
  - left. apply Hex. apply in_all_dl0, Hl.
  - left. apply Hex. apply in_all_dl1, Hl.
Qed.

(* ---------- the equivalence theorem ---------- *)

Lemma resultant_unloaded (b : bar Q) : has_loads b = false -> resultant b =t= tor0.
Proof.
  intros H. destruct (unloaded_facts b H) as [Hc Hd]. unfold resultant. rewrite Hc, Hd. reflexivity.
Qed.

Lemma loaded_equivalence (b : bar Q) : wf_geom b -> spans_ok b -> eps_separated b ->
  sum_about_start b (apply_dist b (b_dl b) (map (fun t => mk_node b t (ext_at b t)) (ts_of b)))
  =t= resultant b.
Proof.
  intros Hwf Hsp Hsep.
  destruct (ts_facts b Hsp Hsep) as (_ & (h & rest & Hts) & _).
  pose proof (ext_part b Hsp Hsep) as Hext.
  rewrite Hts in *.
  rewrite (apply_dist_sum b (b_dl b) (ext_at b) h rest), resultant_tsum.
  apply tor_add_proper; [exact Hext|].
  apply tsum_map_ext. intros l Hl. apply dl_part; assumption.
Qed.

Lemma bar_equivalence : forall (b : bar Q),
  wf_geom b -> spans_ok b -> eps_separated b ->
  tor_eq (sum_about_start b (slice_bar b)) (resultant b).
Proof.
  intros b Hwf Hsp Hsep. unfold slice_bar.
  destruct (is_axial b) eqn:Eax; destruct (has_loads b) eqn:Ehl.
  - apply axial_equivalence; assumption.
  - rewrite resultant_unloaded by assumption.
    apply (sum_mk_zero b [0; 1]).
  - apply loaded_equivalence; assumption.
  - rewrite resultant_unloaded by assumption. apply sum_mk_zero.
Qed.

Lemma all_positions_weight (b : bar Q) p :
  In p (all_positions (with_own_weight b)) -> In p (all_positions b).
Proof.
  unfold all_positions. cbn [with_own_weight b_cl b_dl app].
  rewrite flat_map_app. cbn [flat_map own_weight_load dl_t0 dl_t1 app].
  intros [H|[H|H]]; [left; exact H | right; left; exact H |].
  apply in_app_or in H. destruct H as [H|H].
  - right; right. apply in_or_app. left. exact H.
  - apply in_app_or in H. destruct H as [H|H].
    + right; right. apply in_or_app. right. exact H.
    + destruct H as [H|[H|[]]]; [left; exact H | right; left; exact H].
Qed.

Lemma weighted_bar_equivalence : forall (b : bar Q),
  wf_geom b -> spans_ok b -> eps_separated b ->
  tor_eq (sum_about_start b (preprocess_bar true b)) (resultant (with_own_weight b)).
Proof.
  intros b Hwf Hsp Hsep. unfold preprocess_bar.
  change (sum_about_start b (slice_bar (with_own_weight b)))
    with (sum_about_start (with_own_weight b) (slice_bar (with_own_weight b))).
  apply bar_equivalence.
  - exact Hwf.
  - destruct Hsp as [Hc Hd]. split; [exact Hc|].
    cbn [with_own_weight b_dl]. intros l Hl. apply in_app_or in Hl. destruct Hl as [Hl|[<-|[]]]; [auto|].
    cbn. repeat split; lra.
  - intros p q Hp Hq. apply Hsep; apply all_positions_weight; assumption.
Qed.
