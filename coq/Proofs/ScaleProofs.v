(* C06 at the level of a whole bar: multiplying every load of a bar by a factor leaves the slicing
   untouched (same positions, same coordinates) and multiplies the external, left and right load of
   every slice node by that factor.  Model/Slice.v + Model/Loads.v over the translated lump_gen. *)
From Coq Require Import ZArith QArith Qabs List Bool Lia Lqa Setoid Morphisms.
From Inkfem Require Import Num.NumOps Gen.GenConsts Gen.GenLoads Model.Types Model.Slice Model.Loads
  Spec.Resultant Proofs.LoadsProofs.
Import ListNotations.
Local Open Scope Q_scope.
Local Infix "=t=" := tor_eq (at level 70, no associativity).

Definition scale_cl (a : Q) (l : cload Q) : cload Q :=
  {| cl_term := cl_term l; cl_local := cl_local l; cl_t := cl_t l; cl_v := a * cl_v l |}.
Definition scale_dl (a : Q) (l : dload Q) : dload Q :=
  {| dl_term := dl_term l; dl_local := dl_local l; dl_t0 := dl_t0 l; dl_v0 := a * dl_v0 l; dl_t1 := dl_t1 l; dl_v1 := a * dl_v1 l |}.
Definition scale_bar (a : Q) (b : bar Q) : bar Q :=
  {| b_n1 := b_n1 b; b_n2 := b_n2 b; b_l1 := b_l1 b; b_l2 := b_l2 b;
     b_x1 := b_x1 b; b_y1 := b_y1 b; b_x2 := b_x2 b; b_y2 := b_y2 b; b_L := b_L b; b_c := b_c b; b_s := b_s b;
     b_E := b_E b; b_A := b_A b; b_I := b_I b; b_S := b_S b; b_rho := b_rho b;
     b_cl := map (scale_cl a) (b_cl b); b_dl := map (scale_dl a) (b_dl b) |}.

Definition tscale (a : Q) (t : tor Q) : tor Q := (a * t_fx t, a * t_fy t, a * t_mz t).

#[export] Instance tscale_proper a : Proper (tor_eq ==> tor_eq) (tscale a).
Proof. intros x y (H1 & H2 & H3). unfold tor_eq, tscale. cbn. rewrite H1, H2, H3. repeat split; reflexivity. Qed.

Lemma tscale_add a x y : tscale a (tor_add x y) =t= tor_add (tscale a x) (tscale a y).
Proof. unfold tor_eq, tscale, tor_add, t_fx, t_fy, t_mz. cbn. repeat split; ring. Qed.
Lemma tscale_0 a : tscale a tor0 =t= tor0.
Proof. unfold tor_eq, tscale, tor0, t_fx, t_fy, t_mz. cbn. repeat split; ring. Qed.

(* same slicing *)
Lemma cpos_scale a cl : cpos (map (scale_cl a) cl) = cpos cl.
Proof.
  unfold cpos. induction cl as [|l cl IH]; [reflexivity|]. cbn [map filter]. cbn [scale_cl cl_t].
  destruct (negb (is_extreme (cl_t l))); cbn [map]; rewrite IH; reflexivity.
Qed.
Lemma dpos_scale a dl : dpos (map (scale_dl a) dl) = dpos dl.
Proof. unfold dpos. induction dl as [|l dl IH]; [reflexivity|]. cbn [map flat_map scale_dl dl_t0 dl_t1]. rewrite IH. reflexivity. Qed.
Lemma positions_scale a cl dl n : slice_positions (map (scale_cl a) cl) (map (scale_dl a) dl) n = slice_positions cl dl n.
Proof. unfold slice_positions, required_positions. rewrite cpos_scale, dpos_scale. reflexivity. Qed.

Lemma is_axial_scale a b : is_axial (scale_bar a b) = is_axial b.
Proof.
  unfold is_axial. cbn [scale_bar b_dl b_cl b_l1 b_l2]. destruct (b_dl b) as [|d ds]; [|reflexivity]. cbn [map].
  f_equal. f_equal. induction (b_cl b) as [|l cl IH]; [reflexivity|]. cbn [map forallb]. rewrite IH. reflexivity.
Qed.
Lemma has_loads_scale a b : has_loads (scale_bar a b) = has_loads b.
Proof. unfold has_loads. cbn [scale_bar b_dl b_cl]. destruct (b_cl b), (b_dl b); reflexivity. Qed.

(* loads scale *)
Lemma term_tor_scale a tm v : term_tor tm (a * v) =t= tscale a (term_tor tm v).
Proof. destruct tm; unfold tor_eq, tscale, term_tor, t_fx, t_fy, t_mz; cbn; repeat split; ring. Qed.
Lemma to_local_scale a c s t : to_local c s (tscale a t) =t= tscale a (to_local c s t).
Proof. unfold tor_eq, tscale, to_local, t_fx, t_fy, t_mz. cbn. repeat split; ring. Qed.
#[export] Instance to_local_proper c s : Proper (tor_eq ==> tor_eq) (to_local (F:=Q) c s).
Proof. intros x y (H1 & H2 & H3). unfold tor_eq, to_local, t_fx, t_fy, t_mz in *. cbn in *. rewrite H1, H2, H3. repeat split; reflexivity. Qed.

Lemma cl_local_tor_scale a c s l : cl_local_tor c s (scale_cl a l) =t= tscale a (cl_local_tor c s l).
Proof.
  unfold cl_local_tor. cbn [scale_cl cl_term cl_v cl_local]. destruct (cl_local l).
  - apply term_tor_scale.
  - rewrite term_tor_scale. apply to_local_scale.
Qed.

Lemma ext_at_scale a b t : ext_at (scale_bar a b) t =t= tscale a (ext_at b t).
Proof.
  unfold ext_at. cbn [scale_bar b_cl b_c b_s].
  assert (G : forall cl acc acc', acc' =t= tscale a acc ->
            fold_left (fun ac l => if teq t (cl_t l) then tor_add ac (cl_local_tor (b_c b) (b_s b) l) else ac) (map (scale_cl a) cl) acc'
            =t= tscale a (fold_left (fun ac l => if teq t (cl_t l) then tor_add ac (cl_local_tor (b_c b) (b_s b) l) else ac) cl acc)).
  { induction cl as [|l cl IH]; intros acc acc' H; [exact H|]. cbn [map fold_left scale_cl cl_t].
    apply IH. destruct (teq t (cl_t l)); [| exact H].
    change {| cl_term := cl_term l; cl_local := cl_local l; cl_t := cl_t l; cl_v := a * cl_v l |} with (scale_cl a l).
    etransitivity; [| symmetry; apply tscale_add]. apply tor_add_proper; [exact H | apply cl_local_tor_scale]. }
  apply G. symmetry. apply tscale_0.
Qed.

Lemma dl_value_at_scale a l t : dl_value_at (scale_dl a l) t == a * dl_value_at l t.
Proof.
  unfold dl_value_at. cbn [scale_dl dl_t0 dl_t1 dl_v0 dl_v1].
  destruct ((nltb t (dl_t0 l) && negb (teq t (dl_t0 l))) || (nltb (dl_t1 l) t && negb (teq t (dl_t1 l)))).
  - cbn [n0 QOps]. ring.
  - cbn [nadd nsub nmul ndiv QOps]. unfold Qdiv. ring.
Qed.

Lemma term_tor_proper tm : Proper (Qeq ==> tor_eq) (term_tor (F:=Q) tm).
Proof. intros x y H. destruct tm; unfold tor_eq, term_tor, t_fx, t_fy, t_mz; cbn; repeat split; try reflexivity; exact H. Qed.

Lemma dl_tor_at_scale a c s l t : dl_tor_at c s (scale_dl a l) t =t= tscale a (dl_tor_at c s l t).
Proof.
  unfold dl_tor_at. cbn [scale_dl dl_term dl_local].
  change (dl_value_at {| dl_term := dl_term l; dl_local := dl_local l; dl_t0 := dl_t0 l; dl_v0 := a * dl_v0 l; dl_t1 := dl_t1 l; dl_v1 := a * dl_v1 l |} t)
    with (dl_value_at (scale_dl a l) t).
  assert (E : term_tor (dl_term l) (dl_value_at (scale_dl a l) t) =t= tscale a (term_tor (dl_term l) (dl_value_at l t))).
  { rewrite <- term_tor_scale. apply term_tor_proper. apply dl_value_at_scale. }
  destruct (dl_local l); [exact E|]. rewrite E. apply to_local_scale.
Qed.

Lemma lump_gen_scale a s1 s2 s3 e1 e2 e3 len :
  fst (lump_gen (O:=QOps) (a * s1) (a * s2) (a * s3) (a * e1) (a * e2) (a * e3) len) =t= tscale a (fst (lump_gen (O:=QOps) s1 s2 s3 e1 e2 e3 len)) /\
  snd (lump_gen (O:=QOps) (a * s1) (a * s2) (a * s3) (a * e1) (a * e2) (a * e3) len) =t= tscale a (snd (lump_gen (O:=QOps) s1 s2 s3 e1 e2 e3 len)).
Proof.
  unfold lump_gen, tor_eq, tscale, t_fx, t_fy, t_mz. cbn. unfold Qdiv. repeat split; ring.
Qed.

Lemma lump_gen_proper len : forall s1 s2 s3 e1 e2 e3 s1' s2' s3' e1' e2' e3',
  s1 == s1' -> s2 == s2' -> s3 == s3' -> e1 == e1' -> e2 == e2' -> e3 == e3' ->
  fst (lump_gen (O:=QOps) s1 s2 s3 e1 e2 e3 len) =t= fst (lump_gen (O:=QOps) s1' s2' s3' e1' e2' e3' len) /\
  snd (lump_gen (O:=QOps) s1 s2 s3 e1 e2 e3 len) =t= snd (lump_gen (O:=QOps) s1' s2' s3' e1' e2' e3' len).
Proof.
  intros. unfold lump_gen, tor_eq, t_fx, t_fy, t_mz. cbn. unfold Qdiv.
  rewrite H, H0, H1, H2, H3, H4. repeat split; reflexivity.
Qed.

Lemma dl_lump_scale a b l ta tb :
  fst (dl_lump (scale_bar a b) (scale_dl a l) ta tb) =t= tscale a (fst (dl_lump b l ta tb)) /\
  snd (dl_lump (scale_bar a b) (scale_dl a l) ta tb) =t= tscale a (snd (dl_lump b l ta tb)).
Proof.
  unfold dl_lump. change (in_span (scale_dl a l) ta tb) with (in_span l ta tb).
  change (Loads.slice_len (scale_bar a b) ta tb) with (Loads.slice_len b ta tb).
  cbn [scale_bar b_c b_s].
  destruct (in_span l ta tb).
  - cbv zeta.
    destruct (dl_tor_at_scale a (b_c b) (b_s b) l ta) as (A1 & A2 & A3).
    destruct (dl_tor_at_scale a (b_c b) (b_s b) l tb) as (B1 & B2 & B3).
    unfold tscale, t_fx, t_fy, t_mz in A1, A2, A3, B1, B2, B3. cbn [fst snd] in A1, A2, A3, B1, B2, B3.
    destruct (lump_gen_proper (Loads.slice_len b ta tb) _ _ _ _ _ _ _ _ _ _ _ _ A1 A2 A3 B1 B2 B3) as (P1 & P2).
    destruct (lump_gen_scale a (t_fx (dl_tor_at (b_c b) (b_s b) l ta)) (t_fy (dl_tor_at (b_c b) (b_s b) l ta)) (t_mz (dl_tor_at (b_c b) (b_s b) l ta))
                (t_fx (dl_tor_at (b_c b) (b_s b) l tb)) (t_fy (dl_tor_at (b_c b) (b_s b) l tb)) (t_mz (dl_tor_at (b_c b) (b_s b) l tb))
                (Loads.slice_len b ta tb)) as (S1 & S2).
    unfold t_fx, t_fy, t_mz in *. split; [rewrite P1; exact S1 | rewrite P2; exact S2].
  - cbn [fst snd]. split; symmetry; apply tscale_0.
Qed.

Lemma slice_lumps_scale a b dl ta tb :
  fst (slice_lumps (scale_bar a b) (map (scale_dl a) dl) ta tb) =t= tscale a (fst (slice_lumps b dl ta tb)) /\
  snd (slice_lumps (scale_bar a b) (map (scale_dl a) dl) ta tb) =t= tscale a (snd (slice_lumps b dl ta tb)).
Proof.
  unfold slice_lumps.
  assert (G : forall dl acc acc', fst acc' =t= tscale a (fst acc) -> snd acc' =t= tscale a (snd acc) ->
    let r' := fold_left (fun ac l => let p := dl_lump (scale_bar a b) l ta tb in (tor_add (fst ac) (fst p), tor_add (snd ac) (snd p))) (map (scale_dl a) dl) acc' in
    let r := fold_left (fun ac l => let p := dl_lump b l ta tb in (tor_add (fst ac) (fst p), tor_add (snd ac) (snd p))) dl acc in
    fst r' =t= tscale a (fst r) /\ snd r' =t= tscale a (snd r)).
  { induction dl0 as [|l dl0 IH]; intros acc acc' H1 H2; [split; assumption|]. cbn [map fold_left].
    apply IH; cbn [fst snd]; destruct (dl_lump_scale a b l ta tb) as (L1 & L2).
    - etransitivity; [| symmetry; apply tscale_add]. apply tor_add_proper; [exact H1 | exact L1].
    - etransitivity; [| symmetry; apply tscale_add]. apply tor_add_proper; [exact H2 | exact L2]. }
  apply G; cbn [fst snd]; symmetry; apply tscale_0.
Qed.

(* slice nodes related by the factor *)
Definition node_rel (a : Q) (n n' : pnode Q) : Prop :=
  pn_t n' = pn_t n /\ pn_x n' = pn_x n /\ pn_y n' = pn_y n /\
  pn_ext n' =t= tscale a (pn_ext n) /\ pn_left n' =t= tscale a (pn_left n) /\ pn_right n' =t= tscale a (pn_right n).

Lemma add_left_rel a n n' t t' : node_rel a n n' -> t' =t= tscale a t -> node_rel a (add_left n t) (add_left n' t').
Proof.
  intros (H1 & H2 & H3 & H4 & H5 & H6) Ht. unfold node_rel, add_left. cbn [pn_t pn_x pn_y pn_ext pn_left pn_right].
  split; [exact H1|]. split; [exact H2|]. split; [exact H3|]. split; [exact H4|]. split; [| exact H6].
  etransitivity; [| symmetry; apply tscale_add]. apply tor_add_proper; assumption.
Qed.
Lemma add_right_rel a n n' t t' : node_rel a n n' -> t' =t= tscale a t -> node_rel a (add_right n t) (add_right n' t').
Proof.
  intros (H1 & H2 & H3 & H4 & H5 & H6) Ht. unfold node_rel, add_right. cbn [pn_t pn_x pn_y pn_ext pn_left pn_right].
  split; [exact H1|]. split; [exact H2|]. split; [exact H3|]. split; [exact H4|]. split; [exact H5|].
  etransitivity; [| symmetry; apply tscale_add]. apply tor_add_proper; assumption.
Qed.

Lemma apply_dist_from_rel a b dl : forall rest rest' n n', node_rel a n n' -> Forall2 (node_rel a) rest rest' ->
  Forall2 (node_rel a) (apply_dist_from b dl n rest) (apply_dist_from (scale_bar a b) (map (scale_dl a) dl) n' rest').
Proof.
  induction rest as [|c rest IH]; intros rest' n n' Hn Hr; inversion Hr as [|? c' ? rest'' Hc Hr']; subst; cbn [apply_dist_from].
  - constructor; [exact Hn | constructor].
  - destruct Hn as (T1 & Hn'). destruct Hc as (T2 & Hc').
    rewrite T1, T2.
    destruct (slice_lumps_scale a b dl (pn_t n) (pn_t c)) as (L1 & L2).
    constructor.
    + apply add_left_rel; [split; assumption | exact L1].
    + apply IH; [apply add_right_rel; [split; assumption | exact L2] | exact Hr'].
Qed.

Lemma mk_node_rel a b t e e' : e' =t= tscale a e -> node_rel a (mk_node b t e) (mk_node (scale_bar a b) t e').
Proof.
  intros H. unfold node_rel, mk_node. cbn [pn_t pn_x pn_y pn_ext pn_left pn_right].
  split; [reflexivity|]. split; [reflexivity|]. split; [reflexivity|]. split; [exact H|]. split; symmetry; apply tscale_0.
Qed.

Lemma axial_end_load_scale a b s : axial_end_load (scale_bar a b) s =t= tscale a (axial_end_load b s).
Proof.
  unfold axial_end_load. cbn [scale_bar b_cl b_c b_s].
  assert (G : forall cl acc acc', acc' =t= tscale a acc ->
     fold_left (fun ac l => let t := cl_local_tor (b_c b) (b_s b) l in
                 let hit := if s then is_min (cl_t l) else negb (is_min (cl_t l)) && is_max (cl_t l) in
                 if hit then ((t_fx ac + t_fx t)%num, (t_fy ac + t_fy t)%num, n0) else ac) (map (scale_cl a) cl) acc'
     =t= tscale a (fold_left (fun ac l => let t := cl_local_tor (b_c b) (b_s b) l in
                 let hit := if s then is_min (cl_t l) else negb (is_min (cl_t l)) && is_max (cl_t l) in
                 if hit then ((t_fx ac + t_fx t)%num, (t_fy ac + t_fy t)%num, n0) else ac) cl acc)).
  { induction cl as [|l cl IH]; intros acc acc' H; [exact H|]. cbn [map fold_left]. apply IH. cbv zeta.
    cbn [scale_cl cl_t].
    destruct (if s then is_min (cl_t l) else negb (is_min (cl_t l)) && is_max (cl_t l)); [| exact H].
    change {| cl_term := cl_term l; cl_local := cl_local l; cl_t := cl_t l; cl_v := a * cl_v l |} with (scale_cl a l).
    destruct (cl_local_tor_scale a (b_c b) (b_s b) l) as (C1 & C2 & _). destruct H as (H1 & H2 & _).
    unfold tor_eq, tscale, t_fx, t_fy, t_mz in *. cbn [fst snd nadd n0 QOps] in *. rewrite C1, C2, H1, H2. repeat split; ring. }
  apply G. symmetry. apply tscale_0.
Qed.

(* THEOREM: every load of the bar times a: same chain of nodes, every nodal load times a *)
Theorem slice_bar_scales (a : Q) (b : bar Q) : Forall2 (node_rel a) (slice_bar b) (slice_bar (scale_bar a b)).
Proof.
  unfold slice_bar. rewrite is_axial_scale, has_loads_scale.
  destruct (is_axial b).
  - destruct (has_loads b).
    + constructor; [apply mk_node_rel, axial_end_load_scale | constructor; [apply mk_node_rel, axial_end_load_scale | constructor]].
    + constructor; [apply mk_node_rel; symmetry; apply tscale_0 | constructor; [apply mk_node_rel; symmetry; apply tscale_0 | constructor]].
  - destruct (has_loads b).
    + cbn [scale_bar b_cl b_dl]. rewrite positions_scale.
      unfold apply_dist.
      induction (slice_positions (b_cl b) (b_dl b) c_slices_loaded) as [|t ts _]; [constructor|].
      cbn [map]. apply apply_dist_from_rel; [apply mk_node_rel, ext_at_scale|].
      induction ts as [|t' ts IH]; cbn [map]; constructor; [apply mk_node_rel, ext_at_scale | exact IH].
    + induction (uniform c_slices_unloaded) as [|t ts IH]; cbn [map]; constructor; [apply mk_node_rel; symmetry; apply tscale_0 | exact IH].
Qed.
