(* C06 from the load values to the solution, for a whole structure of the model: the bars are sliced (Model/Loads.v
   slice_bar), the system is assembled from the sliced bars (Model/Assemble.v) and handed to the solver.  On one layout
   of loads the assembled matrix does not depend on the load values, the assembled load vector is linear in them, and so
   a x u1 + u2 solves the system of the structure loaded with  a x (first values) + (second values)  whenever u1 and u2
   solve the systems of the two. *)
From Coq Require Import ZArith QArith Qabs List Bool Lia Lqa Setoid Morphisms.
From Inkfem Require Import Num.NumOps Gen.GenConsts Gen.GenLoads Gen.GenStiffness Model.Types Model.Slice Model.Loads Model.Dof Model.Assemble
  Spec.Resultant Proofs.LoadsProofs Proofs.RecoverProofs Proofs.FieldProofs Proofs.AssembleProofs Proofs.LinearProofs Proofs.LinearBar.
Import ListNotations.
Local Open Scope Q_scope.

Definition sliced (b : bar Q) (d : list dof3) : pbar Q := {| pb_bar := b; pb_nodes := slice_bar b; pb_dofs := d |}.
Definition sliced_all (bs : list (bar Q)) (ds : list (list dof3)) : list (pbar Q) :=
  map (fun p => sliced (fst p) (snd p)) (combine bs ds).

(* the same member (geometry, links, material, section) with the same layout of loads *)
Record same_member (b1 b2 : bar Q) : Prop := {
  sm_layout : same_layout b1 b2;
  sm_L : b_L b2 = b_L b1; sm_E : b_E b2 = b_E b1; sm_A : b_A b2 = b_A b1; sm_I : b_I b2 = b_I b1 }.

(* ---- the load vector terms of one bar ---- *)
Lemma net_lin a n1 n2 n3 : node_lin a n1 n2 n3 ->
  tor_eqQ (pn_net n3) (a * t_fx (pn_net n1) + t_fx (pn_net n2), a * t_fy (pn_net n1) + t_fy (pn_net n2), a * t_mz (pn_net n1) + t_mz (pn_net n2)).
Proof.
  intros (_ & _ & _ & _ & (E1 & E2 & E3) & (L1 & L2 & L3) & (R1 & R2 & R3)).
  unfold tor_eqQ, pn_net, tor_add, tcomb, t_fx, t_fy, t_mz in *. cbn [fst snd nadd QOps] in *.
  rewrite E1, E2, E3, L1, L2, L3, R1, R2, R3. repeat split; ring.
Qed.

Lemma fterms_fold_lin a (b1 b2 b3 : bar Q) i :
  b_c b2 = b_c b1 -> b_s b2 = b_s b1 -> b_c b3 = b_c b1 -> b_s b3 = b_s b1 ->
  forall ns1 ns2 ns3, Forall3 (node_lin a) ns1 ns2 ns3 -> forall ds,
  fraw_at (flat_map (node_fterms b3) (combine ns3 ds)) i ==
  a * fraw_at (flat_map (node_fterms b1) (combine ns1 ds)) i + fraw_at (flat_map (node_fterms b2) (combine ns2 ds)) i.
Proof.
  intros C2 S2 C3 S3. induction 1 as [|n1 n2 n3 r1 r2 r3 Hn _ IH]; intros ds.
  - cbn [combine flat_map]. rewrite !fraw_at_nil. ring.
  - destruct ds as [|d ds]; [cbn [combine flat_map]; rewrite !fraw_at_nil; ring|].
    cbn [combine flat_map]. rewrite !fraw_at_app, (IH ds).
    assert (E : fraw_at (node_fterms b3 (n3, d)) i == a * fraw_at (node_fterms b1 (n1, d)) i + fraw_at (node_fterms b2 (n2, d)) i).
    { pose proof (node_fterms_linear b1 a n1 n2 n3 d i (net_lin a n1 n2 n3 Hn)) as H.
      unfold node_fterms in *. rewrite C2, S2, C3, S3. exact H. }
    rewrite E. ring.
Qed.

Lemma bar_fterms_linear a b1 b2 d i : same_layout b1 b2 ->
  fraw_at (bar_fterms (sliced (comb_bar a b1 b2) d)) i == a * fraw_at (bar_fterms (sliced b1 d)) i + fraw_at (bar_fterms (sliced b2 d)) i.
Proof.
  intros S. unfold bar_fterms, sliced. cbn [pb_bar pb_nodes pb_dofs].
  apply fterms_fold_lin; try reflexivity; try apply S.
  exact (slice_bar_linear a b1 b2 (comb_bar a b1 b2) (comb_bar_lin a b1 b2 S)).
Qed.

(* ---- the stiffness terms of one bar see the positions of the nodes only ---- *)
Lemma contribs_from_positions (b : bar Q) : forall ns ns' ds n n' d, pn_t n' = pn_t n -> Forall2 (fun x y => pn_t y = pn_t x) ns ns' ->
  bar_contribs_from b n' d (combine ns' ds) = bar_contribs_from b n d (combine ns ds).
Proof.
  induction ns as [|m ns IH]; intros ns' ds n n' d Hn H; inversion H as [|? m' ? ns'' Hm Hr]; subst; [reflexivity|].
  destruct ds as [|e ds]; [reflexivity|]. cbn [combine bar_contribs_from].
  rewrite (IH ns'' ds m m' e Hm Hr). unfold slice_contribs. rewrite Hn, Hm. reflexivity.
Qed.

Lemma node_lin_positions a ns1 ns2 ns3 : Forall3 (node_lin a) ns1 ns2 ns3 ->
  Forall2 (fun x y => pn_t y = pn_t x) ns1 ns2 /\ Forall2 (fun x y => pn_t y = pn_t x) ns1 ns3.
Proof. induction 1 as [|n1 n2 n3 r1 r2 r3 (T2 & T3 & _) _ (IH2 & IH3)]; split; constructor; assumption. Qed.

Lemma bar_contribs_same a b1 b2 d : same_member b1 b2 ->
  bar_contribs (sliced b2 d) = bar_contribs (sliced b1 d) /\ bar_contribs (sliced (comb_bar a b1 b2) d) = bar_contribs (sliced b1 d).
Proof.
  intros M. pose proof (sm_layout _ _ M) as S.
  destruct (node_lin_positions a _ _ _ (slice_bar_linear a b1 b2 (comb_bar a b1 b2) (comb_bar_lin a b1 b2 S))) as (P2 & P3).
  unfold bar_contribs, sliced. cbn [pb_bar pb_nodes pb_dofs].
  assert (G : forall (b b' : bar Q) ns ns', b_L b' = b_L b -> b_c b' = b_c b -> b_s b' = b_s b -> b_E b' = b_E b -> b_A b' = b_A b -> b_I b' = b_I b ->
              Forall2 (fun x y => pn_t y = pn_t x) ns ns' ->
              match combine ns' d with [] => [] | (na, da) :: rest => bar_contribs_from b' na da rest end =
              match combine ns d with [] => [] | (na, da) :: rest => bar_contribs_from b na da rest end).
  { intros b b' ns ns' HL Hc Hs HE HA HI H. destruct H as [|n n' r r' Hn Hr]; [reflexivity|]. destruct d as [|e ds]; [reflexivity|].
    cbn [combine].
    assert (Hb : forall x dx rest, bar_contribs_from b' x dx rest = bar_contribs_from b x dx rest).
    { intros x dx rest. revert x dx. induction rest as [|(y, dy) rest IHr]; intros x dx; [reflexivity|].
      cbn [bar_contribs_from]. rewrite IHr. unfold slice_contribs. rewrite HL, Hc, Hs, HE, HA, HI. reflexivity. }
    rewrite Hb. apply contribs_from_positions; assumption. }
  split.
  - apply G; try apply M; try apply S. exact P2.
  - apply G; try reflexivity. exact P3.
Qed.

(* ---- whole structures ---- *)
Lemma all_fterms_linear a : forall bs1 bs2, Forall2 same_layout bs1 bs2 -> forall ds i,
  fraw_at (all_fterms (sliced_all (zip_with (comb_bar a) bs1 bs2) ds)) i ==
  a * fraw_at (all_fterms (sliced_all bs1 ds)) i + fraw_at (all_fterms (sliced_all bs2 ds)) i.
Proof.
  unfold all_fterms, sliced_all. induction 1 as [|b1 b2 r1 r2 S _ IH]; intros ds i.
  - cbn [zip_with combine map flat_map]. rewrite !fraw_at_nil. ring.
  - destruct ds as [|d ds]; [cbn [zip_with combine map flat_map]; rewrite !fraw_at_nil; ring|].
    cbn [zip_with combine map flat_map fst snd]. rewrite !fraw_at_app, (IH ds i), (bar_fterms_linear a b1 b2 d i S). ring.
Qed.

Lemma all_contribs_same a : forall bs1 bs2, Forall2 same_member bs1 bs2 -> forall ds,
  all_contribs (sliced_all bs2 ds) = all_contribs (sliced_all bs1 ds) /\
  all_contribs (sliced_all (zip_with (comb_bar a) bs1 bs2) ds) = all_contribs (sliced_all bs1 ds).
Proof.
  unfold all_contribs, sliced_all. induction 1 as [|b1 b2 r1 r2 M _ IH]; intros ds; [split; reflexivity|].
  destruct ds as [|d ds]; [split; reflexivity|].
  cbn [zip_with combine map flat_map fst snd]. destruct (IH ds) as (I2 & I3). destruct (bar_contribs_same a b1 b2 d M) as (B2 & B3).
  rewrite I2, I3, B2, B3. split; reflexivity.
Qed.

Lemma f_final_linear a bs1 bs2 ds sup i : Forall2 same_layout bs1 bs2 ->
  f_final (all_fterms (sliced_all (zip_with (comb_bar a) bs1 bs2) ds)) sup i ==
  a * f_final (all_fterms (sliced_all bs1 ds)) sup i + f_final (all_fterms (sliced_all bs2 ds)) sup i.
Proof.
  intros S. unfold f_final. destruct (is_supported sup i).
  - cbn [n0 QOps]. ring.
  - apply all_fterms_linear. exact S.
Qed.

Lemma members_layout bs1 bs2 : Forall2 same_member bs1 bs2 -> Forall2 same_layout bs1 bs2.
Proof. induction 1 as [|b1 b2 r1 r2 M _ IH]; constructor; [apply M | exact IH]. Qed.

(* THEOREM (C06, from load values to solution): K is the same for the three load cases, f is linear in the values,
   and the combination of two solutions solves the combined case *)
Theorem structure_response_is_linear_in_the_load_values (a : Q) (bs1 bs2 : list (bar Q)) (ds : list (list dof3)) (sup : list nat) (n : nat)
  (u1 u2 : nat -> Q) :
  Forall2 same_member bs1 bs2 ->
  let K (bs : list (bar Q)) := k_final (all_contribs (sliced_all bs ds)) sup in
  let f (bs : list (bar Q)) := f_final (all_fterms (sliced_all bs ds)) sup in
  let bs3 := zip_with (comb_bar a) bs1 bs2 in
  (forall i, (i < n)%nat -> mat_vec n (K bs1) u1 i == f bs1 i) ->
  (forall i, (i < n)%nat -> mat_vec n (K bs2) u2 i == f bs2 i) ->
  (forall i j, K bs3 i j = K bs1 i j) /\
  (forall i, f bs3 i == a * f bs1 i + f bs2 i) /\
  (forall i, (i < n)%nat -> mat_vec n (K bs3) (fun j => a * u1 j + u2 j) i == f bs3 i).
Proof.
  intros M K f bs3 H1 H2.
  destruct (all_contribs_same a bs1 bs2 M ds) as (C2 & C3).
  assert (K3 : forall i j, K bs3 i j = K bs1 i j) by (intros i j; unfold K, bs3; rewrite C3; reflexivity).
  assert (K2 : forall i j, K bs2 i j = K bs1 i j) by (intros i j; unfold K; rewrite C2; reflexivity).
  assert (F3 : forall i, f bs3 i == a * f bs1 i + f bs2 i) by (intro i; unfold f, bs3; apply f_final_linear, members_layout, M).
  split; [exact K3|]. split; [exact F3|].
  intros i Hi. rewrite (F3 i).
  assert (E3 : mat_vec n (K bs3) (fun j => a * u1 j + u2 j) i == mat_vec n (K bs1) (fun j => a * u1 j + u2 j) i).
  { unfold mat_vec. apply fsum_ext. intros j _. rewrite K3. reflexivity. }
  rewrite E3. apply solution_linear; [exact H1 | | exact Hi].
  intros k Hk. rewrite <- (H2 k Hk). unfold mat_vec. apply fsum_ext. intros j _. rewrite K2. reflexivity.
Qed.
