(* C20 over the rationals (the instance the executable model and the correspondence use). *)
From Coq Require Import ZArith QArith Qabs Lia List Field.
From Inkfem Require Import Num.NumOps Gen.GenStiffness Spec.Stiffness.
Import ListNotations.
Local Open Scope Q_scope.

Definition veq (a b : list Q) : Prop := Forall2 Qeq a b.
Definition meq (a b : list (list Q)) : Prop := Forall2 veq a b.
Definition zero6 : list Q := [0; 0; 0; 0; 0; 0].

Section Q.
Variables L c s t1 t2 E A I : Q.
Hypothesis Hl : ~ L * (t2 - t1) == 0.
Hypothesis Hcs : c * c + s * s == 1.

Let K := stiff_gen (O:=QOps) L c s t1 t2 E A I.
Let l := L * (t2 - t1).

Lemma HLq : ~ L == 0. Proof. intro H; apply Hl; rewrite H; ring. Qed.
Lemma Htq : ~ t2 - t1 == 0. Proof. intro H; apply Hl; rewrite H; ring. Qed.
Lemma Hs2q : s * s == 1 - c * c. Proof. rewrite <- Hcs; ring. Qed.

Lemma stiff_symmetric_Q : forall i j, (i < 6)%nat -> (j < 6)%nat -> entry K i j == entry K j i.
Proof.
  intros i j Hi Hj. pose proof HLq. pose proof Htq.
  do 6 (destruct i as [|i]; [do 6 (destruct j as [|j]; [cbn; field; auto|]); exfalso; lia|]).
  exfalso; lia.
Qed.

Lemma stiff_rotated_local_Q :
  meq K (rotated_local c s (E * A / l) (E * I / (l * l * l)) (E * I / (l * l)) (E * I / l)).
Proof.
  pose proof HLq. pose proof Htq. unfold K, l, stiff_gen, rotated_local. cbn.
  repeat (constructor; try (field; auto)).
Qed.

Lemma stiff_rigid_tx_Q : veq (mv K rigid_tx) zero6.
Proof.
  pose proof HLq. pose proof Htq. unfold K, stiff_gen, rigid_tx. cbn.
  repeat (constructor; try (field; auto)).
Qed.

Lemma stiff_rigid_ty_Q : veq (mv K rigid_ty) zero6.
Proof.
  pose proof HLq. pose proof Htq. unfold K, stiff_gen, rigid_ty. cbn.
  repeat (constructor; try (field; auto)).
Qed.

Lemma stiff_rigid_rot_Q : forall x y px py,
  veq (mv K (rigid_rot c s l x y px py)) zero6.
Proof.
  intros. pose proof HLq. pose proof Htq. pose proof Hs2q as Hs2.
  unfold K, l, stiff_gen, rigid_rot. cbn.
  repeat (constructor; try (field [Hs2]; auto)).
Qed.

Lemma stiff_energy_Q : forall x1 y1 r1 x2 y2 r2,
  let d := [x1; y1; r1; x2; y2; r2] in
  dot d (mv K d) ==
    (E * A / l) * (form_a c s d * form_a c s d)
    + (E * I / (l * l * l)) * (3 * (form_b c s l d * form_b c s l d) + form_g l d * form_g l d).
Proof.
  intros. pose proof HLq. pose proof Htq. pose proof Hs2q as Hs2.
  unfold d, K, l, stiff_gen, form_a, form_b, form_g. cbn.
  field [Hs2]; auto.
Qed.

End Q.

Lemma Qsqr_nonneg (x : Q) : 0 <= x * x.
Proof.
  destruct (Qlt_le_dec x 0) as [H|H].
  - setoid_replace (x * x) with ((- x) * (- x)) by ring.
    apply Qmult_le_0_compat; apply (Qopp_le_compat x 0); apply Qlt_le_weak; exact H.
  - apply Qmult_le_0_compat; exact H.
Qed.

Lemma stiff_psd_Q : forall L c s t1 t2 E A I x1 y1 r1 x2 y2 r2,
  0 < L * (t2 - t1) -> c * c + s * s == 1 -> 0 <= E * A -> 0 <= E * I ->
  let d := [x1; y1; r1; x2; y2; r2] in
  0 <= dot d (mv (stiff_gen (O:=QOps) L c s t1 t2 E A I) d).
Proof.
  intros L c s t1 t2 E A I x1 y1 r1 x2 y2 r2 Hl Hcs HEA HEI d.
  assert (Hne : ~ L * (t2 - t1) == 0) by (intro H; rewrite H in Hl; inversion Hl).
  unfold d. rewrite (stiff_energy_Q L c s t1 t2 E A I Hne Hcs).
  set (l := L * (t2 - t1)) in *. clearbody l.
  assert (Hl3 : 0 < l * l * l) by (repeat apply Qmult_lt_0_compat; assumption).
  assert (0 <= E * A / l) by (apply Qmult_le_0_compat; [assumption | apply Qlt_le_weak, Qinv_lt_0_compat; assumption]).
  assert (0 <= E * I / (l * l * l)) by (apply Qmult_le_0_compat; [assumption | apply Qlt_le_weak, Qinv_lt_0_compat; assumption]).
  rewrite <- (Qplus_0_l 0).
  apply Qplus_le_compat; apply Qmult_le_0_compat; try assumption.
  - apply Qsqr_nonneg.
  - rewrite <- (Qplus_0_l 0). apply Qplus_le_compat; [apply Qmult_le_0_compat; [discriminate | apply Qsqr_nonneg] | apply Qsqr_nonneg].
Qed.
