(* Proofs for C03: equilibrium of every bar (its two end torsors balance everything applied to
   it, forces and moment), derived from the chain statics of Proofs/RecoverProofs.v, and the
   way solve sums bar-end torsors into support reactions. *)
From Coq Require Import ZArith QArith Qabs List Bool Arith Lia Field Lqa Permutation.
From Inkfem Require Import Num.NumOps Gen.GenLoads Gen.GenRecover Spec.Stiffness
  Model.Types Model.Slice Model.Dof Model.Assemble Model.Recover Proofs.RecoverProofs.
Import ListNotations.
Local Open Scope Q_scope.

Definition ldx (ld : slice_load) := (sl_p1 ld, sl_q1 ld, sl_m1 ld, sl_p2 ld, sl_q2 ld, sl_m2 ld).

(* lead state of the last element of the chain *)
Fixpoint march_final (b : bar Q) (na : pnode Q) (rest : list (pnode Q * dof3 * slice_load))
         (st : Q * Q * Q) : Q * Q * Q :=
  match rest with
  | [] => st
  | (nb, _, ld) :: rest' =>
    let lead := cross_slice (slice_len b na nb) (sl_p1 ld) (sl_q1 ld) (sl_m1 ld) (sl_p2 ld) (sl_q2 ld) (sl_m2 ld) st in
    match rest' with
    | [] => lead
    | _ :: _ => march_final b nb rest' (cross_node (pn_ext nb) lead)
    end
  end.

Fixpoint chain_length (b : bar Q) (na : pnode Q) (rest : list (pnode Q * dof3 * slice_load)) : Q :=
  match rest with
  | [] => 0
  | (nb, _, _) :: rest' => slice_len b na nb + chain_length b nb rest'
  end.

(* resultant of everything applied strictly inside the chain (distributed loads of every
   element, concentrated loads of every interior node): axial force, transverse force, and
   moment about the point of abscissa 0, the chain starting at abscissa sa *)
Fixpoint chain_loads (b : bar Q) (sa : Q) (na : pnode Q) (rest : list (pnode Q * dof3 * slice_load))
  : Q * Q * Q :=
  match rest with
  | [] => (0, 0, 0)
  | (nb, _, ld) :: rest' =>
    let len := slice_len b na nb in
    let sb := sa + len in
    let fx := (sl_p1 ld + sl_p2 ld) / 2 * len in
    let fy := (sl_q1 ld + sl_q2 ld) / 2 * len in
    let mz := (sl_m1 ld + sl_m2 ld) / 2 * len + sa * fy + len * len * (sl_q1 ld + 2 * sl_q2 ld) / 6 in
    let nd := match rest' with
              | [] => (0, 0, 0)
              | _ :: _ => (t_fx (pn_ext nb), t_fy (pn_ext nb), t_mz (pn_ext nb) + sb * t_fy (pn_ext nb))
              end in
    let r := chain_loads b sb nb rest' in
    (fx + fst (fst nd) + fst (fst r), fy + snd (fst nd) + snd (fst r), mz + snd nd + snd r)
  end.

Lemma march_balance (b : bar Q) : forall rest na sa st, rest <> [] ->
  let e := march_final b na rest st in
  let S := sa + chain_length b na rest in
  let F := chain_loads b sa na rest in
  fst (fst e) == fst (fst st) - fst (fst F) /\
  snd (fst e) == snd (fst st) + snd (fst F) /\
  snd e - S * snd (fst e) == snd st - sa * snd (fst st) - snd F.
Proof.
  induction rest as [|[[nb db] ld] rest IH]; intros na sa st Hne; [congruence|].
  destruct rest as [|[[nc dc] lc] rest'].
  - cbn [march_final chain_length chain_loads]. unfold cross_slice. cbn [fst snd].
    repeat split; field.
  - set (x := (nc, dc, lc)) in *.
    assert (Hne' : x :: rest' <> []) by discriminate.
    specialize (IH nb (sa + slice_len b na nb)
      (cross_node (pn_ext nb) (cross_slice (slice_len b na nb) (sl_p1 ld) (sl_q1 ld) (sl_m1 ld) (sl_p2 ld) (sl_q2 ld) (sl_m2 ld) st)) Hne').
    cbv zeta in IH. destruct IH as (I1 & I2 & I3).
    change (march_final b na ((nb, db, ld) :: x :: rest') st) with
      (march_final b nb (x :: rest') (cross_node (pn_ext nb) (cross_slice (slice_len b na nb) (sl_p1 ld) (sl_q1 ld) (sl_m1 ld) (sl_p2 ld) (sl_q2 ld) (sl_m2 ld) st))).
    change (chain_length b na ((nb, db, ld) :: x :: rest')) with (slice_len b na nb + chain_length b nb (x :: rest')).
    change (chain_loads b sa na ((nb, db, ld) :: x :: rest')) with
      (let len := slice_len b na nb in
       let sb := sa + len in
       let fx := (sl_p1 ld + sl_p2 ld) / 2 * len in
       let fy := (sl_q1 ld + sl_q2 ld) / 2 * len in
       let mz := (sl_m1 ld + sl_m2 ld) / 2 * len + sa * fy + len * len * (sl_q1 ld + 2 * sl_q2 ld) / 6 in
       let nd := (t_fx (pn_ext nb), t_fy (pn_ext nb), t_mz (pn_ext nb) + sb * t_fy (pn_ext nb)) in
       let r := chain_loads b sb nb (x :: rest') in
       (fx + fst (fst nd) + fst (fst r), fy + snd (fst nd) + snd (fst r), mz + snd nd + snd r)).
    cbv zeta. cbn [fst snd].
    set (E := march_final b nb (x :: rest') _) in *.
    set (R := chain_loads b (sa + slice_len b na nb) nb (x :: rest')) in *.
    set (CL := chain_length b nb (x :: rest')) in *.
    set (len := slice_len b na nb) in *.
    unfold cross_node, cross_slice in I1, I2, I3. cbn [fst snd] in I1, I2, I3.
    clearbody E R CL len.
    repeat split.
    + rewrite I1. field.
    + rewrite I2. field.
    + match type of I3 with ?l == ?r =>
        assert (G : snd E == r + (sa + len + CL) * snd (fst E)) by (rewrite <- I3; ring) end.
      rewrite G, I2. field.
Qed.

(* last element of a marching list *)
Lemma last_cons_nonempty {A} (a : A) (l : list A) (d : A) : l <> [] -> last (a :: l) d = last l d.
Proof. destruct l; [congruence | reflexivity]. Qed.

Lemma march_nonempty (b : bar Q) na x rest st : march b na (x :: rest) st <> [].
Proof. destruct x as [[nb db] ld]. cbn [march]. discriminate. Qed.

Lemma march_final_last (b : bar Q) : forall rest na st d, rest <> [] ->
  snd (last (march b na rest st) d) = march_final b na rest st.
Proof.
  induction rest as [|[[nb db] ld] rest IH]; intros na st d Hne; [congruence|].
  destruct rest as [|[[nc dc] lc] rest']; [reflexivity|].
  set (x := (nc, dc, lc)) in *.
  set (lead := cross_slice (slice_len b na nb) (sl_p1 ld) (sl_q1 ld) (sl_m1 ld) (sl_p2 ld) (sl_q2 ld) (sl_m2 ld) st).
  change (march b na ((nb, db, ld) :: x :: rest') st) with
    ((st, lead) :: march b nb (x :: rest') (cross_node (pn_ext nb) lead)).
  change (march_final b na ((nb, db, ld) :: x :: rest') st) with
    (march_final b nb (x :: rest') (cross_node (pn_ext nb) lead)).
  rewrite last_cons_nonempty by apply march_nonempty.
  apply IH. discriminate.
Qed.

Lemma Forall2_last_pair (l1 l2 : list ((Q * Q * Q) * (Q * Q * Q))) d :
  Forall2 pair_eq l1 l2 -> l1 <> [] -> nvm_eq (snd (last l1 d)) (snd (last l2 d)).
Proof.
  intros H. induction H as [|x y a c (H1 & H2) Hr IH]; intros Hne; [congruence|].
  destruct Hr as [|x' y' a' c' Hxy Hr'].
  - cbn. exact H2.
  - change (last (x :: x' :: a') d) with (last (x' :: a') d).
    change (last (y :: y' :: c') d) with (last (y' :: c') d).
    apply IH. discriminate.
Qed.

(* what the code lists last for the bar *)
Definition recovered_last (b : bar Q) (u : list Q) (na : pnode Q) (da : dof3)
           (rest : list (pnode Q * dof3 * slice_load)) : Q * Q * Q :=
  snd (last (recovered b u na da rest) ((0, 0, 0), (0, 0, 0))).

(* Equilibrium of a whole bar: with (N0, V0, M0) the first listed section forces and
   (Ne, Ve, Me) the last, the torsor the start node exerts on the bar (-N0, V0, -M0), the one
   the end node exerts (Ne, -Ve, Me) at abscissa S, and everything applied in between are in
   balance: axial force, transverse force, and moment about the bar start. *)
Theorem bar_equilibrium (b : bar Q) (u : list Q) : good_bar b ->
  forall nb db ld rest na da, chain_ok b u na da ((nb, db, ld) :: rest) ->
  let all := (nb, db, ld) :: rest in
  let s0 := nvm b (fst (slice_recover b u na nb da db)) in
  let e := recovered_last b u na da all in
  let S := chain_length b na all in
  let F := chain_loads b 0 na all in
  - fst (fst s0) + fst (fst e) + fst (fst F) == 0 /\
  snd (fst s0) - snd (fst e) + snd (fst F) == 0 /\
  - snd s0 + snd e - S * snd (fst e) + snd F == 0.
Proof.
  intros Hb nb db ld rest na da Hok all s0 e S F.
  pose proof (chain_statics b u Hb all na da Hok) as Hst. cbn beta iota in Hst. fold s0 in Hst.
  assert (Hne : recovered b u na da all <> []) by (unfold all; cbn [recovered]; discriminate).
  pose proof (Forall2_last_pair _ _ ((0, 0, 0), (0, 0, 0)) Hst Hne) as HL.
  rewrite (march_final_last b all na s0 _ ltac:(unfold all; discriminate)) in HL.
  fold (recovered_last b u na da all) in HL. fold e in HL. destruct HL as (L1 & L2 & L3).
  destruct (march_balance b all na 0 s0 ltac:(unfold all; discriminate)) as (B1 & B2 & B3).
  fold F in B1, B2, B3. fold S in B3.
  set (E := march_final b na all s0) in *. clearbody E.
  rewrite L1, L2, L3.
  setoid_replace (0 + S) with S in B3 by ring.
  repeat split.
  - rewrite B1. ring.
  - rewrite B2. ring.
  - match type of B3 with ?l == ?r =>
      assert (G : snd E == r + S * snd (fst E)) by (rewrite <- B3; ring) end.
    rewrite G. ring.
Qed.

(* ---- reactions as solve sums them ---- *)

(* contribution of one bar to the reaction of a node *)
Definition reaction_part (eps : Q) (u : list Q) (node : nat) (p : pbar Q) : tor Q :=
  let s := compute_stresses eps p u in
  if Nat.eqb (b_n1 (pb_bar p)) node then
    tor_sub (start_torsor p s) (ext_global (pb_bar p) (first_node p))
  else if Nat.eqb (b_n2 (pb_bar p)) node then
    tor_sub (end_torsor p s) (ext_global (pb_bar p) (last_node p))
  else tor0.

Definition tor_sumQ (l : list (tor Q)) : tor Q := fold_right (fun t acc => tor_add t acc) tor0 l.

Lemma tor_eqQ_refl a : tor_eqQ a a.
Proof. repeat split; reflexivity. Qed.
Lemma tor_eqQ_sym a b : tor_eqQ a b -> tor_eqQ b a.
Proof. intros (A & B & C). repeat split; symmetry; assumption. Qed.
Lemma tor_eqQ_trans a b c : tor_eqQ a b -> tor_eqQ b c -> tor_eqQ a c.
Proof. intros (A1 & A2 & A3) (B1 & B2 & B3). repeat split; etransitivity; eauto. Qed.

Lemma reaction_fold (eps : Q) (u : list Q) (node : nat) : forall bars acc,
  tor_eqQ (fold_left (fun acc p =>
      let s := compute_stresses eps p u in
      if Nat.eqb (b_n1 (pb_bar p)) node then
        tor_sub (tor_add acc (start_torsor p s)) (ext_global (pb_bar p) (first_node p))
      else if Nat.eqb (b_n2 (pb_bar p)) node then
        tor_sub (tor_add acc (end_torsor p s)) (ext_global (pb_bar p) (last_node p))
      else acc) bars acc)
    (tor_add acc (tor_sumQ (map (reaction_part eps u node) bars))).
Proof.
  induction bars as [|p bars IH]; intros acc.
  - cbn [fold_left map tor_sumQ fold_right]. unfold tor_eqQ, tor_add, tor0, t_fx, t_fy, t_mz. cbn [fst snd nadd nsub n0 QOps]. repeat split; ring.
  - cbn [fold_left].
    eapply tor_eqQ_trans; [apply IH|].
    change (tor_sumQ (map (reaction_part eps u node) (p :: bars))) with
      (tor_add (reaction_part eps u node p) (tor_sumQ (map (reaction_part eps u node) bars))).
    set (R := tor_sumQ (map (reaction_part eps u node) bars)). clearbody R.
    unfold reaction_part. cbv zeta.
    destruct (Nat.eqb (b_n1 (pb_bar p)) node); [| destruct (Nat.eqb (b_n2 (pb_bar p)) node)];
      unfold tor_eqQ, tor_add, tor_sub, tor0, t_fx, t_fy, t_mz; cbn [fst snd nadd nsub n0 QOps]; repeat split; ring.
Qed.

(* the reaction of a node is the sum, over the bars that start or end there, of the bar-end
   torsor minus the load applied on that end *)
Lemma reaction_is_sum (eps : Q) (bars : list (pbar Q)) (u : list Q) (node : nat) :
  tor_eqQ (reaction_at eps bars u node) (tor_sumQ (map (reaction_part eps u node) bars)).
Proof.
  unfold reaction_at. eapply tor_eqQ_trans; [apply reaction_fold|].
  unfold tor_eqQ, tor_add, tor0, t_fx, t_fy, t_mz. cbn [fst snd nadd nsub n0 QOps]. repeat split; ring.
Qed.

Lemma tor_sumQ_perm (l l' : list (tor Q)) : Permutation l l' -> tor_eqQ (tor_sumQ l) (tor_sumQ l').
Proof.
  induction 1 as [| x l l' _ IH | x y l | l l' l'' _ IH1 _ IH2].
  - apply tor_eqQ_refl.
  - destruct IH as (A & B & C). cbn [tor_sumQ fold_right]. unfold tor_eqQ, tor_add, t_fx, t_fy, t_mz in *. cbn [fst snd nadd QOps] in *.
    repeat split; [rewrite A | rewrite B | rewrite C]; reflexivity.
  - cbn [tor_sumQ fold_right]. unfold tor_eqQ, tor_add, t_fx, t_fy, t_mz. cbn [fst snd nadd QOps]. repeat split; ring.
  - eapply tor_eqQ_trans; eauto.
Qed.

(* reactions do not depend on the order of the bars *)
Lemma reaction_order_independent (eps : Q) (bars bars' : list (pbar Q)) (u : list Q) (node : nat) :
  Permutation bars bars' -> tor_eqQ (reaction_at eps bars u node) (reaction_at eps bars' u node).
Proof.
  intros H. eapply tor_eqQ_trans; [apply reaction_is_sum|].
  eapply tor_eqQ_trans; [| apply tor_eqQ_sym, reaction_is_sum].
  apply tor_sumQ_perm. apply Permutation_map. exact H.
Qed.

(* a bar that neither starts nor ends at the node contributes nothing *)
Lemma reaction_part_elsewhere (eps : Q) (u : list Q) (node : nat) (p : pbar Q) :
  b_n1 (pb_bar p) <> node -> b_n2 (pb_bar p) <> node -> reaction_part eps u node p = tor0.
Proof.
  intros H1 H2. unfold reaction_part. cbv zeta.
  destruct (Nat.eqb_spec (b_n1 (pb_bar p)) node); [contradiction|].
  destruct (Nat.eqb_spec (b_n2 (pb_bar p)) node); [contradiction|]. reflexivity.
Qed.

Lemma node_reactions_keys (eps : Q) (bars : list (pbar Q)) (u : list Q) (nodes : list (nat * link)) n r :
  In (n, r) (node_reactions eps bars u nodes) <->
  (exists l, In (n, l) nodes /\ is_constrained l = true) /\ r = reaction_at eps bars u n.
Proof.
  unfold node_reactions. rewrite in_map_iff. split.
  - intros ([n' l] & Heq & Hin). cbn in Heq. injection Heq as <- <-.
    apply filter_In in Hin as [Hin Hc]. split; [exists l; split; assumption | reflexivity].
  - intros ((l & Hin & Hc) & ->). exists (n, l). split; [reflexivity|].
    apply filter_In. split; assumption.
Qed.
