(* Proofs of the beam kernel theorems (Properties/C02_kernel.v). *)
From Coq Require Import ZArith QArith Reals List Field.
From Inkfem Require Import Num.NumOps Gen.GenLoads Gen.GenRecover Spec.Stiffness Spec.Beam Model.Types.
Import ListNotations.

Lemma interpolates_R : forall (EA EI l u1 v1 r1 u2 v2 r2 p1 p2 q1 q2 : R),
  (EA <> 0 -> EI <> 0 -> l <> 0 ->
  let u := axial_field (O:=ROps) EA l u1 u2 p1 p2 in
  let v := trans_field (O:=ROps) EI l v1 r1 v2 r2 q1 q2 in
  peval u 0 = u1 /\ peval u l = u2 /\
  peval v 0 = v1 /\ peval (pderiv v) 0 = r1 /\ peval v l = v2 /\ peval (pderiv v) l = r2)%R.
Proof.
  intros. unfold u, v, axial_field, trans_field, peval, pderiv, pderiv_from. cbn.
  repeat split; field; auto.
Qed.

Lemma ode_R : forall (EA EI l u1 v1 r1 u2 v2 r2 p1 p2 q1 q2 x : R),
  (EA <> 0 -> EI <> 0 -> l <> 0 ->
  let u := axial_field (O:=ROps) EA l u1 u2 p1 p2 in
  let v := trans_field (O:=ROps) EI l v1 r1 v2 r2 q1 q2 in
  EA * peval (pderiv (pderiv u)) x = - lin p1 p2 l x /\
  EI * peval (pderiv (pderiv (pderiv (pderiv v)))) x = lin q1 q2 l x)%R.
Proof.
  intros. unfold u, v, axial_field, trans_field, lin, peval, pderiv, pderiv_from. cbn.
  split; field; auto.
Qed.

Lemma end_forces_R : forall (EA EI l u1 v1 r1 u2 v2 r2 p1 p2 q1 q2 : R),
  (EA <> 0 -> EI <> 0 -> l <> 0 ->
  let u := axial_field (O:=ROps) EA l u1 u2 p1 p2 in
  let v := trans_field (O:=ROps) EI l v1 r1 v2 r2 q1 q2 in
  let lump := lump_gen (O:=ROps) p1 q1 0 p2 q2 0 l in
  let feq := [t_fx (fst lump); t_fy (fst lump); t_mz (fst lump); t_fx (snd lump); t_fy (snd lump); t_mz (snd lump)] in
  end_forces EA EI l u v = map (fun p => fst p - snd p) (combine (mv (k_local EA EI l) [u1; v1; r1; u2; v2; r2]) feq))%R.
Proof.
  intros. unfold feq, lump, u, v, end_forces, N_of, V_of, M_of, axial_field, trans_field, lump_gen,
    k_local, k_local_coeffs, mv, dot, vsum, t_fx, t_fy, t_mz, peval, pderiv, pderiv_from. cbn.
  repeat (f_equal; try (field; auto)).
Qed.

Lemma recovery_R : forall (E A I S l u1 v1 r1 u2 v2 r2 p1 p2 q1 q2 : R),
  (E <> 0 -> A <> 0 -> I <> 0 -> S <> 0 -> l <> 0 ->
  let u := axial_field (O:=ROps) (E * A) l u1 u2 p1 p2 in
  let v := trans_field (O:=ROps) (E * I) l v1 r1 v2 r2 q1 q2 in
  let lump := lump_gen (O:=ROps) p1 q1 0 p2 q2 0 l in
  let tl := fst lump in let ld := snd lump in
  recover_gen (O:=ROps) E I S A l u1 v1 r1 u2 v2 r2 (t_fx tl) (t_fy tl) (t_mz tl) (t_fx ld) (t_fy ld) (t_mz ld)
  = ((N_of (E * A) u 0 / A, V_of (E * I) v 0, M_of (E * I) v 0, M_of (E * I) v 0 / S),
     (N_of (E * A) u l / A, V_of (E * I) v l, M_of (E * I) v l, M_of (E * I) v l / S)))%R.
Proof.
  intros. unfold ld, tl, lump, u, v, recover_gen, N_of, V_of, M_of, axial_field, trans_field, lump_gen,
    t_fx, t_fy, t_mz, peval, pderiv, pderiv_from. cbn.
  repeat (f_equal; try (field; auto)).
Qed.

Lemma statics_R : forall (EA EI l u1 v1 r1 u2 v2 r2 p1 p2 q1 q2 x : R),
  (EA <> 0 -> EI <> 0 -> l <> 0 ->
  let u := axial_field (O:=ROps) EA l u1 u2 p1 p2 in
  let v := trans_field (O:=ROps) EI l v1 r1 v2 r2 q1 q2 in
  N_of EA u x = N_of EA u 0 - (p1 * x + (p2 - p1) * x * x / (2 * l)) /\
  V_of EI v x = V_of EI v 0 + (q1 * x + (q2 - q1) * x * x / (2 * l)) /\
  M_of EI v x = M_of EI v 0 + V_of EI v 0 * x + (q1 * x * x / 2 + (q2 - q1) * x * x * x / (6 * l)))%R.
Proof.
  intros. unfold u, v, N_of, V_of, M_of, axial_field, trans_field, peval, pderiv, pderiv_from. cbn.
  repeat split; field; auto.
Qed.

Lemma end_forces_Q : forall (EA EI l u1 v1 r1 u2 v2 r2 p1 p2 q1 q2 : Q),
  (~ EA == 0 -> ~ EI == 0 -> ~ l == 0 ->
  let u := axial_field (O:=QOps) EA l u1 u2 p1 p2 in
  let v := trans_field (O:=QOps) EI l v1 r1 v2 r2 q1 q2 in
  let lump := lump_gen (O:=QOps) p1 q1 0 p2 q2 0 l in
  let feq := [t_fx (fst lump); t_fy (fst lump); t_mz (fst lump); t_fx (snd lump); t_fy (snd lump); t_mz (snd lump)] in
  Forall2 Qeq (end_forces EA EI l u v)
       (map (fun p => fst p - snd p) (combine (mv (k_local EA EI l) [u1; v1; r1; u2; v2; r2]) feq)))%Q.
Proof.
  intros. unfold feq, lump, u, v, end_forces, N_of, V_of, M_of, axial_field, trans_field, lump_gen,
    k_local, k_local_coeffs, mv, dot, vsum, t_fx, t_fy, t_mz, peval, pderiv, pderiv_from. cbn.
  repeat (constructor; try (field; auto)).
Qed.

Lemma recovery_Q : forall (E A I S l u1 v1 r1 u2 v2 r2 p1 p2 q1 q2 : Q),
  (~ E == 0 -> ~ A == 0 -> ~ I == 0 -> ~ S == 0 -> ~ l == 0 ->
  let u := axial_field (O:=QOps) (E * A) l u1 u2 p1 p2 in
  let v := trans_field (O:=QOps) (E * I) l v1 r1 v2 r2 q1 q2 in
  let lump := lump_gen (O:=QOps) p1 q1 0 p2 q2 0 l in
  let tl := fst lump in let ld := snd lump in
  let r := recover_gen (O:=QOps) E I S A l u1 v1 r1 u2 v2 r2 (t_fx tl) (t_fy tl) (t_mz tl) (t_fx ld) (t_fy ld) (t_mz ld) in
  let a := fst r in let b := snd r in
  fst (fst (fst a)) == N_of (E * A) u 0 / A /\ snd (fst (fst a)) == V_of (E * I) v 0 /\
  snd (fst a) == M_of (E * I) v 0 /\ snd a == M_of (E * I) v 0 / S /\
  fst (fst (fst b)) == N_of (E * A) u l / A /\ snd (fst (fst b)) == V_of (E * I) v l /\
  snd (fst b) == M_of (E * I) v l /\ snd b == M_of (E * I) v l / S)%Q.
Proof.
  intros. unfold b, a, r, ld, tl, lump, u, v, recover_gen, N_of, V_of, M_of, axial_field, trans_field, lump_gen,
    t_fx, t_fy, t_mz, peval, pderiv, pderiv_from. cbn.
  repeat split; field; auto.
Qed.

Lemma ode_Q : forall (EA EI l u1 v1 r1 u2 v2 r2 p1 p2 q1 q2 x : Q),
  (~ EA == 0 -> ~ EI == 0 -> ~ l == 0 ->
  let u := axial_field (O:=QOps) EA l u1 u2 p1 p2 in
  let v := trans_field (O:=QOps) EI l v1 r1 v2 r2 q1 q2 in
  EA * peval (pderiv (pderiv u)) x == - lin p1 p2 l x /\
  EI * peval (pderiv (pderiv (pderiv (pderiv v)))) x == lin q1 q2 l x /\
  peval u 0 == u1 /\ peval u l == u2 /\
  peval v 0 == v1 /\ peval (pderiv v) 0 == r1 /\ peval v l == v2 /\ peval (pderiv v) l == r2)%Q.
Proof.
  intros. unfold u, v, axial_field, trans_field, lin, peval, pderiv, pderiv_from. cbn.
  repeat split; field; auto.
Qed.

