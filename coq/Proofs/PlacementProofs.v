(* Proofs for C07: how the regenerated kernels behave when the structure is rotated, mirrored,
   or a bar is drawn from its other end.  Over Q (execution instance) and R (all angles). *)
From Coq Require Import ZArith QArith Qabs Reals List Bool Arith Lia Field.
From Inkfem Require Import Num.NumOps Gen.GenStiffness Gen.GenLoads Gen.GenRecover Spec.Stiffness
  Model.Types Proofs.StiffnessQ.
Import ListNotations.

(* six-vector transformations of the end displacements / forces of an element *)
Section Vec.
Context {F : Type} {O : NumOps F}.
Local Open Scope num_scope.
(* rotate both nodes' (x, y) by the angle whose cosine / sine are (cr, sr) *)
Definition rot_vec (cr sr : F) (d : list F) : list F :=
  match d with
  | [x1; y1; r1; x2; y2; r2] => [cr * x1 - sr * y1; sr * x1 + cr * y1; r1; cr * x2 - sr * y2; sr * x2 + cr * y2; r2]
  | _ => d end.
(* mirror about the vertical axis: x -> -x, rotations change sign *)
Definition mirror_vec (d : list F) : list F :=
  match d with [x1; y1; r1; x2; y2; r2] => [- x1; y1; - r1; - x2; y2; - r2] | _ => d end.
(* the same element drawn from its other end: the two node blocks swap *)
Definition swap_vec (d : list F) : list F :=
  match d with [x1; y1; r1; x2; y2; r2] => [x2; y2; r2; x1; y1; r1] | _ => d end.
End Vec.

(* ---------------- over R: all angles ---------------- *)
Section R.
Local Open Scope R_scope.
Variables L c s t1 t2 E A I : R.
Hypothesis Hl : L * (t2 - t1) <> 0.

Lemma HLr : L <> 0. Proof. intro H; apply Hl; rewrite H; ring. Qed.
Lemma Htr : t2 - t1 <> 0. Proof. intro H; apply Hl; rewrite H; ring. Qed.

(* rotating the bar by any angle: K' (R d) = R (K d) *)
Lemma stiff_rotation_R : forall cr sr x1 y1 r1 x2 y2 r2, cr * cr + sr * sr = 1 ->
  let d := [x1; y1; r1; x2; y2; r2] in
  mv (stiff_gen (O:=ROps) L (c * cr - s * sr) (s * cr + c * sr) t1 t2 E A I) (rot_vec cr sr d)
  = rot_vec cr sr (mv (stiff_gen (O:=ROps) L c s t1 t2 E A I) d).
Proof.
  intros cr sr x1 y1 r1 x2 y2 r2 Hr d. pose proof HLr. pose proof Htr.
  assert (Hs2 : sr * sr = 1 - cr * cr) by (rewrite <- Hr; ring).
  unfold d, stiff_gen, rot_vec, mv, dot, vsum. cbn.
  repeat (f_equal; try (field [Hs2]; auto)).
Qed.

Lemma stiff_mirror_R : forall x1 y1 r1 x2 y2 r2,
  let d := [x1; y1; r1; x2; y2; r2] in
  mv (stiff_gen (O:=ROps) L (- c) s t1 t2 E A I) (mirror_vec d)
  = mirror_vec (mv (stiff_gen (O:=ROps) L c s t1 t2 E A I) d).
Proof.
  intros x1 y1 r1 x2 y2 r2 d. pose proof HLr. pose proof Htr.
  unfold d, stiff_gen, mirror_vec, mv, dot, vsum. cbn.
  repeat (f_equal; try (field; auto)).
Qed.

Lemma stiff_reversal_R : forall x1 y1 r1 x2 y2 r2,
  let d := [x1; y1; r1; x2; y2; r2] in
  mv (stiff_gen (O:=ROps) L (- c) (- s) t1 t2 E A I) (swap_vec d)
  = swap_vec (mv (stiff_gen (O:=ROps) L c s t1 t2 E A I) d).
Proof.
  intros x1 y1 r1 x2 y2 r2 d. pose proof HLr. pose proof Htr.
  unfold d, stiff_gen, swap_vec, mv, dot, vsum. cbn.
  repeat (f_equal; try (field; auto)).
Qed.
End R.

(* equivalent loads of an element drawn from its other end: trail and lead swap, local x and
   y change sign, moments keep theirs *)
Lemma lump_reversal_R : forall (sFx sFy sMz eFx eFy eMz len : R), (len <> 0 ->
  let a := lump_gen (O:=ROps) sFx sFy sMz eFx eFy eMz len in
  let b := lump_gen (O:=ROps) (- eFx) (- eFy) eMz (- sFx) (- sFy) sMz len in
  t_fx (fst b) = - t_fx (snd a) /\ t_fy (fst b) = - t_fy (snd a) /\ t_mz (fst b) = t_mz (snd a) /\
  t_fx (snd b) = - t_fx (fst a) /\ t_fy (snd b) = - t_fy (fst a) /\ t_mz (snd b) = t_mz (fst a))%R.
Proof.
  intros. unfold a, b, lump_gen, t_fx, t_fy, t_mz. cbn. repeat split; field; auto.
Qed.

(* recovery on an element drawn from its other end: the values at the two ends swap; axial
   stress and shear keep their sign, bending moment and top-fibre stress change theirs *)
Lemma recover_reversal_R : forall (E I S A len u1 v1 r1 u2 v2 r2 a1 a2 a3 c1 c2 c3 : R),
  (len <> 0 -> A <> 0 -> S <> 0 ->
  let x := recover_gen (O:=ROps) E I S A len u1 v1 r1 u2 v2 r2 a1 a2 a3 c1 c2 c3 in
  let y := recover_gen (O:=ROps) E I S A len (- u2) (- v2) r2 (- u1) (- v1) r1 (- c1) (- c2) c3 (- a1) (- a2) a3 in
  fst y = (fst (fst (fst (snd x))), snd (fst (fst (snd x))), - snd (fst (snd x)), - snd (snd x)) /\
  snd y = (fst (fst (fst (fst x))), snd (fst (fst (fst x))), - snd (fst (fst x)), - snd (fst x)))%R.
Proof.
  intros. unfold x, y, recover_gen. cbn. split; repeat (f_equal; try (field; auto)).
Qed.

(* mirrored element (local y reversed): axial stress keeps its sign, shear, bending moment and
   top-fibre stress change theirs *)
Lemma recover_mirror_R : forall (E I S A len u1 v1 r1 u2 v2 r2 a1 a2 a3 c1 c2 c3 : R),
  (len <> 0 -> A <> 0 -> S <> 0 ->
  let x := recover_gen (O:=ROps) E I S A len u1 v1 r1 u2 v2 r2 a1 a2 a3 c1 c2 c3 in
  let y := recover_gen (O:=ROps) E I S A len u1 (- v1) (- r1) u2 (- v2) (- r2) a1 (- a2) (- a3) c1 (- c2) (- c3) in
  fst y = (fst (fst (fst (fst x))), - snd (fst (fst (fst x))), - snd (fst (fst x)), - snd (fst x)) /\
  snd y = (fst (fst (fst (snd x))), - snd (fst (fst (snd x))), - snd (fst (snd x)), - snd (snd x)))%R.
Proof.
  intros. unfold x, y, recover_gen. cbn. split; repeat (f_equal; try (field; auto)).
Qed.

(* projections: a global torsor rotated with the bar has the same local components; the local
   components of a bar drawn from its other end change sign (moment kept) *)
Lemma projection_rotation_R : forall (c s cr sr fx fy mz : R), (cr * cr + sr * sr = 1 ->
  to_local (O:=ROps) (c * cr - s * sr) (s * cr + c * sr) (cr * fx - sr * fy, sr * fx + cr * fy, mz)
  = to_local (O:=ROps) c s (fx, fy, mz))%R.
Proof.
  intros c s cr sr fx fy mz Hr. assert (Hs2 : (sr * sr = 1 - cr * cr)%R) by (rewrite <- Hr; ring).
  unfold to_local, t_fx, t_fy, t_mz. cbn. repeat (f_equal; try (field [Hs2])).
Qed.
Lemma projection_reversal_R : forall (c s fx fy mz : R),
  (to_local (O:=ROps) (- c) (- s) (fx, fy, mz) =
   (- t_fx (to_local (O:=ROps) c s (fx, fy, mz)), - t_fy (to_local (O:=ROps) c s (fx, fy, mz)), mz))%R.
Proof. intros. unfold to_local, t_fx, t_fy, t_mz. cbn. repeat (f_equal; try ring). Qed.
Lemma projection_roundtrip_R : forall (c s fx fy mz : R), (c * c + s * s = 1 ->
  to_global (O:=ROps) c s (to_local (O:=ROps) c s (fx, fy, mz)) = (fx, fy, mz))%R.
Proof.
  intros c s fx fy mz Hr. assert (Hs2 : (s * s = 1 - c * c)%R) by (rewrite <- Hr; ring).
  unfold to_local, to_global, t_fx, t_fy, t_mz. cbn. repeat (f_equal; try (field [Hs2])).
Qed.

(* ---------------- over Q ---------------- *)
Section Q.
Local Open Scope Q_scope.
Variables L c s t1 t2 E A I : Q.
Hypothesis Hl : ~ L * (t2 - t1) == 0.

Lemma stiff_rotation_Q : forall cr sr x1 y1 r1 x2 y2 r2, cr * cr + sr * sr == 1 ->
  let d := [x1; y1; r1; x2; y2; r2] in
  veq (mv (stiff_gen (O:=QOps) L (c * cr - s * sr) (s * cr + c * sr) t1 t2 E A I) (rot_vec cr sr d))
      (rot_vec cr sr (mv (stiff_gen (O:=QOps) L c s t1 t2 E A I) d)).
Proof.
  intros cr sr x1 y1 r1 x2 y2 r2 Hr d. pose proof (HLq L t1 t2 Hl). pose proof (Htq L t1 t2 Hl).
  assert (Hs2 : sr * sr == 1 - cr * cr) by (rewrite <- Hr; ring).
  unfold d, stiff_gen, rot_vec, mv, dot, vsum. cbn.
  repeat (constructor; try (field [Hs2]; auto)).
Qed.

Lemma stiff_mirror_Q : forall x1 y1 r1 x2 y2 r2,
  let d := [x1; y1; r1; x2; y2; r2] in
  veq (mv (stiff_gen (O:=QOps) L (- c) s t1 t2 E A I) (mirror_vec d))
      (mirror_vec (mv (stiff_gen (O:=QOps) L c s t1 t2 E A I) d)).
Proof.
  intros x1 y1 r1 x2 y2 r2 d. pose proof (HLq L t1 t2 Hl). pose proof (Htq L t1 t2 Hl).
  unfold d, stiff_gen, mirror_vec, mv, dot, vsum. cbn.
  repeat (constructor; try (field; auto)).
Qed.

Lemma stiff_reversal_Q : forall x1 y1 r1 x2 y2 r2,
  let d := [x1; y1; r1; x2; y2; r2] in
  veq (mv (stiff_gen (O:=QOps) L (- c) (- s) t1 t2 E A I) (swap_vec d))
      (swap_vec (mv (stiff_gen (O:=QOps) L c s t1 t2 E A I) d)).
Proof.
  intros x1 y1 r1 x2 y2 r2 d. pose proof (HLq L t1 t2 Hl). pose proof (Htq L t1 t2 Hl).
  unfold d, stiff_gen, swap_vec, mv, dot, vsum. cbn.
  repeat (constructor; try (field; auto)).
Qed.
End Q.
