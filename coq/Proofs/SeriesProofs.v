(* Proofs for C11: sizes and positions of the result series of a bar (Model/Recover.v). *)
From Coq Require Import ZArith QArith Qabs List Bool Arith Lia.
From Inkfem Require Import Num.NumOps Gen.GenRecover Model.Types Model.Slice Model.Dof Model.Assemble Model.Recover.
Import ListNotations.

Section Series.
Variable eps : Q.

Lemma push_len (acc : list psv) (x : psv) :
  length (push_if_new eps acc x) = length acc \/ length (push_if_new eps acc x) = S (length acc).
Proof.
  destruct acc as [|l r]; cbn; [right; reflexivity|].
  destruct (same_psv eps l x); [left | right]; reflexivity.
Qed.
Lemma push_len_nil (x : psv) : length (push_if_new eps [] x) = 1%nat.
Proof. reflexivity. Qed.

(* after k >= 1 finite elements every series holds between k + 1 and 2 k values *)
Definition sized (k : nat) (s : @series4 Q) : Prop :=
  (k + 1 <= length (s_ax s) <= 2 * k /\ k + 1 <= length (s_sh s) <= 2 * k /\
   k + 1 <= length (s_bm s) <= 2 * k /\ k + 1 <= length (s_tf s) <= 2 * k)%nat.

Lemma add_slice_first (ta tb : Q) (r : @q4 Q * @q4 Q) : sized 1 (add_slice eps series0 ta tb r).
Proof. unfold sized, add_slice, series0. cbn. lia. Qed.

Lemma add_slice_next k (acc : @series4 Q) (ta tb : Q) (r : @q4 Q * @q4 Q) : (1 <= k)%nat -> sized k acc -> sized (S k) (add_slice eps acc ta tb r).
Proof.
  intros Hk (A & B & C & D). unfold sized, add_slice. cbn [s_ax s_sh s_bm s_tf length].
  destruct (push_len (s_ax acc) (ta, q_ax (fst r))) as [E1|E1];
  destruct (push_len (s_sh acc) (ta, q_sh (fst r))) as [E2|E2];
  destruct (push_len (s_bm acc) (ta, q_bm (fst r))) as [E3|E3];
  destruct (push_len (s_tf acc) (ta, q_tf (fst r))) as [E4|E4];
  rewrite E1, E2, E3, E4; lia.
Qed.

Lemma stresses_from_sized (b : bar Q) (u : list Q) : forall rest k acc na da,
  (1 <= k)%nat -> sized k acc -> sized (k + length rest) (stresses_from eps b u acc na da rest).
Proof.
  induction rest as [|[nb db] rest IH]; intros k acc na da Hk Hs; cbn [stresses_from length].
  - rewrite Nat.add_0_r. exact Hs.
  - replace (k + S (length rest))%nat with (S k + length rest)%nat by lia.
    apply IH; [lia|]. apply add_slice_next; assumption.
Qed.

(* a bar with n >= 2 slice nodes: each of the four diagram series lists between n and 2 n - 2 values *)
Theorem diagram_sizes (p : pbar Q) (u : list Q) :
  length (pb_nodes p) = length (pb_dofs p) -> (2 <= length (pb_nodes p))%nat ->
  let n := length (pb_nodes p) in
  let s := compute_stresses eps p u in
  (n <= length (s_ax s) <= 2 * n - 2 /\ n <= length (s_sh s) <= 2 * n - 2 /\
   n <= length (s_bm s) <= 2 * n - 2 /\ n <= length (s_tf s) <= 2 * n - 2)%nat.
Proof.
  intros Hlen Hn n s. unfold s, compute_stresses.
  assert (Hc : length (combine (pb_nodes p) (pb_dofs p)) = n) by (rewrite combine_length, <- Hlen; apply Nat.min_id).
  destruct (combine (pb_nodes p) (pb_dofs p)) as [|[na da] rest] eqn:E; [cbn in Hc; lia|].
  destruct rest as [|[nb db] rest]; [cbn in Hc; lia|].
  cbn [stresses_from].
  pose proof (stresses_from_sized (pb_bar p) u rest 1 (add_slice eps series0 (pn_t na) (pn_t nb) (slice_recover (pb_bar p) u na nb da db)) nb db
              (le_n 1) (add_slice_first _ _ _)) as (A & B & C & D).
  cbn [length] in Hc. cbn [s_ax s_sh s_bm s_tf]. rewrite !rev_length.
  replace (1 + length rest)%nat with (n - 1)%nat in * by lia. lia.
Qed.

(* one displacement triple per slice node, in both frames, at the nodes' positions *)
Theorem displacement_series (p : pbar Q) (u : list Q) :
  length (pb_nodes p) = length (pb_dofs p) ->
  length (displ_global p u) = length (pb_nodes p) /\ length (displ_local p u) = length (pb_nodes p) /\
  map fst (displ_global p u) = map (@pn_t Q) (pb_nodes p) /\ map fst (displ_local p u) = map (@pn_t Q) (pb_nodes p).
Proof.
  intros Hlen. unfold displ_global, displ_local. rewrite !map_length, combine_length, <- Hlen, Nat.min_id.
  repeat split; rewrite map_map; cbn [fst];
    (transitivity (map (@pn_t Q) (map fst (combine (pb_nodes p) (pb_dofs p)))); [rewrite map_map; reflexivity|]);
    f_equal; clear u; revert Hlen; generalize (pb_dofs p); induction (pb_nodes p) as [|a l IH]; intros [|d ds] H; cbn in *; try discriminate; try reflexivity;
    f_equal; apply IH; lia.
Qed.

(* every listed position is the position of a slice node of the bar *)
Lemma push_positions (acc : list psv) (x : psv) (ts : list Q) :
  Forall (fun e => In (fst e) ts) acc -> In (fst x) ts -> Forall (fun e => In (fst e) ts) (push_if_new eps acc x).
Proof.
  intros Ha Hx. destruct acc as [|l r]; cbn; [constructor; [exact Hx | constructor]|].
  destruct (same_psv eps l x); [exact Ha | constructor; assumption].
Qed.
End Series.
