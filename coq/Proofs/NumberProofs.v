(* The number reader of the model (Model/Read.v parse_float, tied to strconv.ParseFloat by correspondence stage A) against a
   specification: a decimal numeral is a sign, a non-empty run of integer digits, an optional run of fraction digits and an
   optional exponent; its value is  +-(ip.fp) x 10^e.  Every numeral of moderate size is read as exactly its value - so
   whatever a writer prints in this grammar is read back as the number it stands for, and two spellings of one value are
   read alike. *)
From Coq Require Import ZArith QArith Qabs Qpower NArith Arith List String Ascii Bool Lia Lqa.
From Inkfem Require Import Model.Types Model.Regex Gen.GenRegex Model.Read.
Import ListNotations.
Local Open Scope string_scope.

(* ---- digits ---- *)
Definition digit_char (d : nat) : ascii := ascii_of_nat (48 + d).
Fixpoint digits_string (ds : list nat) : string :=
  match ds with [] => EmptyString | d :: r => String (digit_char d) (digits_string r) end.
Fixpoint digits_value (ds : list nat) (acc : Z) : Z :=
  match ds with [] => acc | d :: r => digits_value r (acc * 10 + Z.of_nat d)%Z end.
Definition all_digits (ds : list nat) : Prop := Forall (fun d => (d < 10)%nat) ds.

Lemma digit_of_char d : (d < 10)%nat -> digit_of (digit_char d) = Some (Z.of_nat d).
Proof.
  intros H. do 10 (destruct d as [|d]; [reflexivity|]). exfalso; lia.
Qed.

(* what may follow a run of digits: nothing, or a character that is not a digit *)
Definition stops (s : string) : Prop := match s with EmptyString => True | String a _ => digit_of a = None end.

Lemma read_digits_run ds : all_digits ds -> forall rest acc cnt, stops rest ->
  read_digits (digits_string ds ++ rest) acc cnt = (digits_value ds acc, (cnt + List.length ds)%nat, rest).
Proof.
  induction 1 as [|d ds Hd _ IH]; intros rest acc cnt Hs.
  - cbn [digits_string append digits_value List.length]. rewrite Nat.add_0_r.
    destruct rest as [|a r]; [reflexivity|]. cbn [read_digits]. cbn [stops] in Hs. rewrite Hs. reflexivity.
  - cbn [digits_string append read_digits]. rewrite (digit_of_char d Hd). rewrite (IH rest _ _ Hs).
    cbn [digits_value List.length]. f_equal. f_equal. lia.
Qed.

Lemma digits_value_acc ds : forall acc, digits_value ds acc = (acc * 10 ^ Z.of_nat (List.length ds) + digits_value ds 0)%Z.
Proof.
  induction ds as [|d ds IH]; intros acc; cbn [digits_value List.length]; [cbn; lia|].
  rewrite IH, (IH (0 * 10 + Z.of_nat d)%Z). rewrite Nat2Z.inj_succ, Z.pow_succ_r by lia. lia.
Qed.

Lemma digits_value_nonneg ds : forall acc, (0 <= acc)%Z -> (0 <= digits_value ds acc)%Z.
Proof. induction ds as [|d ds IH]; intros acc H; cbn [digits_value]; [exact H | apply IH; lia]. Qed.

Lemma digits_value_bound ds : all_digits ds -> forall acc, (0 <= acc)%Z -> (digits_value ds acc < (acc + 1) * 10 ^ Z.of_nat (List.length ds))%Z.
Proof.
  induction 1 as [|d ds Hd _ IH]; intros acc H; cbn [digits_value List.length]; [cbn; lia|].
  specialize (IH (acc * 10 + Z.of_nat d)%Z ltac:(lia)).
  rewrite Nat2Z.inj_succ, Z.pow_succ_r by lia.
  assert (0 < 10 ^ Z.of_nat (List.length ds))%Z by (apply Z.pow_pos_nonneg; lia). nia.
Qed.

(* ---- numerals without an exponent: [+-]? digits [. digits] ---- *)
Record numeral := { nm_neg : bool; nm_plus : bool; nm_ip : list nat; nm_fp : list nat }.
Definition numeral_string (m : numeral) : string :=
  (if nm_neg m then "-" else if nm_plus m then "+" else "") ++ digits_string (nm_ip m) ++
  match nm_fp m with [] => "" | fp => "." ++ digits_string fp end.
(* the integer made of all its digits, and its value  +- that / 10^(number of fraction digits) *)
Definition numeral_mantissa (m : numeral) : Z := digits_value (nm_fp m) (digits_value (nm_ip m) 0).
Definition numeral_value (m : numeral) : Q :=
  let z := if nm_neg m then (- numeral_mantissa m)%Z else numeral_mantissa m in
  match nm_fp m with
  | [] => inject_Z z
  | fp => Qmake z (Z.to_pos (10 ^ Z.of_nat (List.length fp)))
  end.
Definition well_formed (m : numeral) : Prop :=
  all_digits (nm_ip m) /\ all_digits (nm_fp m) /\ nm_ip m <> [] /\ (List.length (nm_ip m) + List.length (nm_fp m) <= 300)%nat.

Lemma sapp_assoc (a b c : string) : (a ++ b) ++ c = a ++ (b ++ c).
Proof. induction a as [|x a IH]; cbn; [reflexivity | rewrite IH; reflexivity]. Qed.

Lemma append_empty_r s : s ++ "" = s.
Proof. induction s as [|a s IH]; cbn; [reflexivity | rewrite IH; reflexivity]. Qed.

Lemma digit_not_sign d : (d < 10)%nat -> Ascii.eqb (digit_char d) "-"%char = false /\ Ascii.eqb (digit_char d) "+"%char = false.
Proof. intros H. do 10 (destruct d as [|d]; [split; reflexivity|]). exfalso; lia. Qed.

Lemma read_sign_digits ds rest : all_digits ds -> ds <> [] -> read_sign (digits_string ds ++ rest) = (false, digits_string ds ++ rest).
Proof.
  intros H Hne. destruct H as [|d ds Hd _]; [congruence|]. cbn [digits_string append read_sign].
  destruct (digit_not_sign d Hd) as (E1 & E2). rewrite E1, E2. reflexivity.
Qed.

Lemma ten300_below_limit : (10 ^ 300 < 2 ^ 1024 - 2 ^ 970)%Z.
Proof. vm_compute. reflexivity. Qed.

Lemma below_limit (z : Z) (p : positive) : (Z.abs z < 10 ^ 300)%Z -> Qle_bool float_limit (Qabs (Qmake z p)) = false.
Proof.
  intros H. destruct (Qle_bool float_limit (Qabs (z # p))) eqn:E; [| reflexivity]. exfalso.
  apply Qle_bool_iff in E. unfold float_limit, Qle, Qabs, inject_Z in E. cbn [Qnum Qden] in E.
  pose proof ten300_below_limit as T.
  assert (Z.abs z * 1 <= Z.abs z * Z.pos p)%Z by (apply Z.mul_le_mono_nonneg_l; lia).
  nia.
Qed.

Lemma mantissa_bound m : well_formed m -> (0 <= numeral_mantissa m < 10 ^ 300)%Z.
Proof.
  intros (Hi & Hf & _ & Hl). unfold numeral_mantissa. split.
  - apply digits_value_nonneg, digits_value_nonneg. lia.
  - pose proof (digits_value_bound (nm_ip m) Hi 0 ltac:(lia)) as B1.
    pose proof (digits_value_nonneg (nm_ip m) 0 ltac:(lia)) as N1.
    pose proof (digits_value_bound (nm_fp m) Hf (digits_value (nm_ip m) 0) N1) as B2.
    assert (P1 : (0 < 10 ^ Z.of_nat (List.length (nm_ip m)))%Z) by (apply Z.pow_pos_nonneg; lia).
    assert (P2 : (0 < 10 ^ Z.of_nat (List.length (nm_fp m)))%Z) by (apply Z.pow_pos_nonneg; lia).
    assert (E : (10 ^ Z.of_nat (List.length (nm_ip m)) * 10 ^ Z.of_nat (List.length (nm_fp m)) = 10 ^ Z.of_nat (List.length (nm_ip m) + List.length (nm_fp m)))%Z)
      by (rewrite Nat2Z.inj_add, Z.pow_add_r by lia; reflexivity).
    assert (M : (10 ^ Z.of_nat (List.length (nm_ip m) + List.length (nm_fp m)) <= 10 ^ 300)%Z) by (apply Z.pow_le_mono_r; lia).
    nia.
Qed.

(* THEOREM: a well-formed numeral is read as exactly its value *)
Theorem numeral_is_read_as_its_value m : well_formed m ->
  exists q, parse_float (numeral_string m) = NumOk q /\ (q == numeral_value m)%Q.
Proof.
  intros W. pose proof (mantissa_bound m W) as (M0 & M1). destruct W as (Hi & Hf & Hne & Hl).
  unfold parse_float, numeral_string.
  (* the sign *)
  assert (S : read_sign ((if nm_neg m then "-" else if nm_plus m then "+" else "") ++ digits_string (nm_ip m) ++
                         match nm_fp m with [] => "" | fp => "." ++ digits_string fp end)
              = (nm_neg m, digits_string (nm_ip m) ++ match nm_fp m with [] => "" | fp => "." ++ digits_string fp end)).
  { destruct (nm_neg m); [reflexivity|]. destruct (nm_plus m); [reflexivity|]. cbn [append]. apply read_sign_digits; assumption. }
  rewrite S. clear S.
  (* the integer digits *)
  assert (St : stops match nm_fp m with [] => "" | fp => "." ++ digits_string fp end) by (destruct (nm_fp m); reflexivity).
  rewrite (read_digits_run (nm_ip m) Hi _ 0%Z 0%nat St). cbn [Nat.add].
  destruct (List.length (nm_ip m)) as [|n1] eqn:En1; [destruct (nm_ip m); [congruence | discriminate]|].
  unfold numeral_value, numeral_mantissa in *.
  destruct (nm_fp m) as [|f fp] eqn:Efp.
  - (* no fraction digits *)
    cbn [digits_value List.length] in *. cbn iota beta. cbn [andb Nat.eqb negb Z.of_nat Z.sub].
    set (v := digits_value (nm_ip m) 0) in *.
    destruct (Z.eqb v 0) eqn:Ez.
    + apply Z.eqb_eq in Ez. eexists; split; [reflexivity|]. rewrite Ez. destruct (nm_neg m); reflexivity.
    + change (0 - 0)%Z with 0%Z.
      assert (L1 : Z.ltb 400 (0 + Z.of_nat (S n1 + 0)) = false) by (apply Z.ltb_ge; lia).
      rewrite L1. change (0 <? -800)%Z with false. change (0 <=? 0)%Z with true. cbn iota.
      assert (Hq : forall z, (Z.abs z < 10 ^ 300)%Z -> Qle_bool float_limit (Qabs (inject_Z (z * 10 ^ 0))) = false)
        by (intros z Hz; unfold inject_Z; apply below_limit; rewrite Z.pow_0_r, Z.mul_1_r; exact Hz).
      rewrite Hq by (destruct (nm_neg m); lia).
      eexists; split; [reflexivity|]. rewrite Z.pow_0_r, Z.mul_1_r. reflexivity.
  - (* fraction digits *)
    assert (Hf' : all_digits (f :: fp)) by exact Hf.
    change ("." ++ digits_string (f :: fp)) with (String "." (digits_string (f :: fp))).
    cbn iota beta. rewrite Ascii.eqb_refl.
    rewrite <- (append_empty_r (digits_string (f :: fp))).
    rewrite (read_digits_run (f :: fp) Hf' "" (digits_value (nm_ip m) 0) 0%nat I). cbn [Nat.add].
    set (n2 := List.length (f :: fp)) in *. assert (N2 : n2 = S (List.length fp)) by reflexivity.
    set (v := digits_value (f :: fp) (digits_value (nm_ip m) 0)) in *.
    assert (Z2 : Nat.eqb n2 0 = false) by (rewrite N2; reflexivity). rewrite Z2. cbn [negb andb]. cbn iota beta.
    destruct (Z.eqb v 0) eqn:Ez.
    + apply Z.eqb_eq in Ez. eexists; split; [reflexivity|]. rewrite Ez. destruct (nm_neg m); reflexivity.
    + assert (L1 : Z.ltb 400 (0 - Z.of_nat n2 + Z.of_nat (S (n1 + n2))) = false) by (apply Z.ltb_ge; lia).
      assert (L2 : Z.ltb (0 - Z.of_nat n2) (-800) = false) by (apply Z.ltb_ge; lia).
      assert (L3 : Z.leb 0 (0 - Z.of_nat n2) = false) by (apply Z.leb_gt; lia).
      rewrite L1, L2, L3.
      rewrite below_limit by (destruct (nm_neg m); lia).
      eexists; split; [reflexivity|].
      replace (- (0 - Z.of_nat n2))%Z with (Z.of_nat n2) by lia. reflexivity.
Qed.

(* two spellings of one value are read alike: trailing zeros of the fraction, a leading plus sign *)
Corollary spellings_of_one_value_are_read_alike m m' : well_formed m -> well_formed m' ->
  (numeral_value m == numeral_value m')%Q ->
  exists q q', parse_float (numeral_string m) = NumOk q /\ parse_float (numeral_string m') = NumOk q' /\ (q == q')%Q.
Proof.
  intros W W' E. destruct (numeral_is_read_as_its_value m W) as (q & P & V). destruct (numeral_is_read_as_its_value m' W') as (q' & P' & V').
  exists q, q'. split; [exact P|]. split; [exact P'|]. rewrite V, V'. exact E.
Qed.

(* what is not a numeral is refused: an empty integer part *)
Lemma no_integer_digits_is_a_syntax_error rest : stops rest -> parse_float rest = NumSyntax \/ exists a r, rest = String a r /\ (Ascii.eqb a "-" || Ascii.eqb a "+")%char = true.
Proof.
  intros Hs. destruct rest as [|a r]; [left; reflexivity|].
  destruct (Ascii.eqb a "-"%char) eqn:E1; [right; exists a, r; split; [reflexivity | rewrite E1; reflexivity]|].
  destruct (Ascii.eqb a "+"%char) eqn:E2; [right; exists a, r; split; [reflexivity | rewrite E1, E2; reflexivity]|].
  left. unfold parse_float. cbn [read_sign]. rewrite E1, E2. cbn [read_digits]. cbn [stops] in Hs. rewrite Hs. reflexivity.
Qed.

Example numeral_example :
  let m := {| nm_neg := true; nm_plus := false; nm_ip := [1; 2; 0]%nat; nm_fp := [5; 0; 7]%nat |} in
  numeral_string m = "-120.507" /\ well_formed m /\ (numeral_value m == - (120507 # 1000))%Q /\ parse_float "-120.507" = NumOk (-120507 # 1000).
Proof.
  cbv zeta. split; [reflexivity|]. split; [| split; reflexivity].
  unfold well_formed, all_digits. cbn. repeat split; try (repeat constructor; lia); try discriminate; lia.
Qed.

(* ---- numerals with an exponent: ... (e|E) [+-]? digits ---- *)
Record exponent := { ex_upper : bool; ex_neg : bool; ex_plus : bool; ex_digits : list nat }.
Definition exponent_string (e : exponent) : string :=
  (if ex_upper e then "E" else "e") ++ (if ex_neg e then "-" else if ex_plus e then "+" else "") ++ digits_string (ex_digits e).
Definition exponent_value (e : exponent) : Z := if ex_neg e then (- digits_value (ex_digits e) 0)%Z else digits_value (ex_digits e) 0.
(* z x 10^k *)
Definition scale10 (z k : Z) : Q := if Z.leb 0 k then inject_Z (z * 10 ^ k) else Qmake z (Z.to_pos (10 ^ (- k))).
Definition enumeral_value (m : numeral) (e : exponent) : Q :=
  scale10 (if nm_neg m then (- numeral_mantissa m)%Z else numeral_mantissa m) (exponent_value e - Z.of_nat (List.length (nm_fp m))).
Definition well_formed_e (m : numeral) (e : exponent) : Prop :=
  well_formed m /\ all_digits (ex_digits e) /\ ex_digits e <> [] /\
  (- 300 <= exponent_value e)%Z /\ (exponent_value e + Z.of_nat (List.length (nm_ip m)) <= 300)%Z.

Lemma pos_pow_1_l (p : positive) : (1 ^ p = 1)%positive.
Proof. apply Pos2Z.inj. rewrite Pos2Z.inj_pow. apply Z.pow_1_l. lia. Qed.

Lemma scale10_is_a_power z k : (scale10 z k == inject_Z z * (10 # 1) ^ k)%Q.
Proof.
  unfold scale10. destruct (Z.leb 0 k) eqn:E.
  - apply Z.leb_le in E. rewrite inject_Z_mult. apply Qmult_comp; [reflexivity|].
    destruct k as [|p|p]; [reflexivity | | lia].
    rewrite Qpower_decomp_pos, pos_pow_1_l. reflexivity.
  - apply Z.leb_gt in E. destruct k as [|p|p]; try lia. cbn [Z.opp].
    rewrite (Qpower_decomp_neg_pos p 10 1). rewrite Z.pow_1_l by lia.
    assert (P : (0 < 10 ^ Z.pos p)%Z) by (apply Z.pow_pos_nonneg; lia).
    unfold Qeq, Qmult, inject_Z. cbn [Qnum Qden].
    rewrite Pos2Z.inj_mul, Pos2Z.inj_pow. rewrite Z2Pos.id by exact P. lia.
Qed.

Lemma read_sign_exp e : read_sign ((if ex_neg e then "-" else if ex_plus e then "+" else "") ++ digits_string (ex_digits e)) =
  (ex_neg e, digits_string (ex_digits e)) \/ ex_digits e = [] \/ ~ all_digits (ex_digits e).
Proof.
  destruct (ex_neg e); [left; reflexivity|]. destruct (ex_plus e); [left; reflexivity|]. cbn [append].
  destruct (ex_digits e) as [|d ds] eqn:Ed; [right; left; reflexivity|].
  destruct (Nat.ltb d 10) eqn:Hd.
  - apply Nat.ltb_lt in Hd. left. cbn [digits_string read_sign]. destruct (digit_not_sign d Hd) as (E1 & E2). rewrite E1, E2. reflexivity.
  - right. right. intro H. inversion H as [|? ? H1 _]; subst. apply Nat.ltb_ge in Hd. lia.
Qed.

Lemma scale10_below_limit z k : (Z.abs z < 10 ^ 300)%Z -> (k <= 0 \/ exists a, 0 <= a /\ Z.abs z < 10 ^ a /\ a + k <= 300)%Z ->
  Qle_bool float_limit (Qabs (scale10 z k)) = false.
Proof.
  intros Hz Hk. unfold scale10. destruct (Z.leb 0 k) eqn:E.
  - apply Z.leb_le in E. unfold inject_Z. apply below_limit.
    destruct Hk as [Hk | (a & Ha & Hza & Hak)].
    + assert (k = 0)%Z by lia. subst. rewrite Z.pow_0_r, Z.mul_1_r. exact Hz.
    + rewrite Z.abs_mul. rewrite (Z.abs_eq (10 ^ k)) by (apply Z.pow_nonneg; lia).
      assert (P : (0 < 10 ^ k)%Z) by (apply Z.pow_pos_nonneg; lia).
      assert (M : (10 ^ a * 10 ^ k <= 10 ^ 300)%Z) by (rewrite <- Z.pow_add_r by lia; apply Z.pow_le_mono_r; lia).
      nia.
  - apply below_limit. exact Hz.
Qed.

(* THEOREM: a well-formed numeral with an exponent is read as exactly its value  mantissa x 10^(exponent - fraction digits) *)
Theorem numeral_with_exponent_is_read_as_its_value m e : well_formed_e m e ->
  exists q, parse_float (numeral_string m ++ exponent_string e) = NumOk q /\ (q == enumeral_value m e)%Q.
Proof.
  intros (W & He & Hene & Elo & Ehi). pose proof (mantissa_bound m W) as (M0 & M1). destruct W as (Hi & Hf & Hne & Hl).
  assert (Emark : forall r, exists c, (if ex_upper e then "E" else "e") ++ r = String c r /\ (Ascii.eqb c "e" || Ascii.eqb c "E")%char = true /\ digit_of c = None /\ Ascii.eqb c "." = false)
    by (intro r; destruct (ex_upper e); eexists; repeat split; reflexivity).
  unfold parse_float, numeral_string, exponent_string. rewrite !sapp_assoc.
  (* the sign *)
  set (tail_e := (if ex_neg e then "-" else if ex_plus e then "+" else "") ++ digits_string (ex_digits e)).
  destruct (Emark tail_e) as (c & Ec & Cmark & Cdig & Cdot). rewrite Ec.
  set (frac := match nm_fp m with [] => "" | fp => "." ++ digits_string fp end).
  assert (Sg : read_sign ((if nm_neg m then "-" else if nm_plus m then "+" else "") ++ digits_string (nm_ip m) ++ frac ++ String c tail_e)
              = (nm_neg m, digits_string (nm_ip m) ++ frac ++ String c tail_e)).
  { destruct (nm_neg m); [reflexivity|]. destruct (nm_plus m); [reflexivity|]. cbn [append]. apply read_sign_digits; assumption. }
  rewrite Sg. clear Sg.
  assert (St : stops (frac ++ String c tail_e)) by (unfold frac; destruct (nm_fp m); [exact Cdig | reflexivity]).
  rewrite (read_digits_run (nm_ip m) Hi _ 0%Z 0%nat St). cbn [Nat.add].
  destruct (List.length (nm_ip m)) as [|n1] eqn:En1; [destruct (nm_ip m); [congruence | discriminate]|].
  (* the exponent, read the same way in both branches *)
  assert (Rs : read_sign tail_e = (ex_neg e, digits_string (ex_digits e))).
  { destruct (read_sign_exp e) as [H | [H | H]]; [exact H | congruence | contradiction]. }
  assert (Rd : read_digits (digits_string (ex_digits e)) 0%Z 0%nat = (digits_value (ex_digits e) 0, List.length (ex_digits e), "")).
  { rewrite <- (append_empty_r (digits_string (ex_digits e))). rewrite (read_digits_run (ex_digits e) He "" 0%Z 0%nat I). reflexivity. }
  assert (Ne : Nat.eqb (List.length (ex_digits e)) 0 = false) by (destruct (ex_digits e); [congruence | reflexivity]).
  unfold enumeral_value, numeral_mantissa, exponent_value in *.
  set (ev := digits_value (ex_digits e) 0) in *.
  destruct (nm_fp m) as [|f fp] eqn:Efp; unfold frac.
  - (* no fraction digits *)
    cbn [append digits_value List.length Z.of_nat] in *. rewrite Cdot. cbn iota beta. rewrite Cmark. rewrite Rs. cbn iota beta. rewrite Rd, Ne.
    cbn [negb andb Nat.eqb]. cbn iota beta.
    set (v := digits_value (nm_ip m) 0) in *.
    set (ez := if ex_neg e then (- ev)%Z else ev) in *.
    destruct (Z.eqb v 0) eqn:Ez.
    + apply Z.eqb_eq in Ez. eexists; split; [reflexivity|]. rewrite Ez. unfold scale10.
      destruct (nm_neg m); cbn [Z.opp]; destruct (Z.leb 0 (ez - 0)); cbn; reflexivity.
    + change (Z.of_nat 0) with 0%Z in *.
      assert (L1 : Z.ltb 400 (ez - 0 + Z.of_nat (S n1 + 0)) = false) by (apply Z.ltb_ge; lia).
      assert (L2 : Z.ltb (ez - 0) (-800) = false) by (apply Z.ltb_ge; lia).
      rewrite L1, L2.
      change (if (0 <=? ez - 0)%Z then inject_Z ((if nm_neg m then (- v)%Z else v) * 10 ^ (ez - 0))
              else (if nm_neg m then (- v)%Z else v) # Z.to_pos (10 ^ (- (ez - 0))))
        with (scale10 (if nm_neg m then (- v)%Z else v) (ez - 0)).
      rewrite scale10_below_limit.
      * eexists; split; [reflexivity | reflexivity].
      * destruct (nm_neg m); lia.
      * right. exists (Z.of_nat (S n1)). split; [lia|]. split; [| lia].
        pose proof (digits_value_bound (nm_ip m) Hi 0 ltac:(lia)) as B. rewrite En1 in B. destruct (nm_neg m); lia.
  - (* fraction digits *)
    assert (Hf' : all_digits (f :: fp)) by exact Hf.
    change (("." ++ digits_string (f :: fp)) ++ String c tail_e) with (String "." (digits_string (f :: fp) ++ String c tail_e)).
    cbn iota beta. rewrite Ascii.eqb_refl.
    rewrite (read_digits_run (f :: fp) Hf' (String c tail_e) (digits_value (nm_ip m) 0) 0%nat Cdig). cbn [Nat.add].
    set (n2 := List.length (f :: fp)) in *. assert (N2 : n2 = S (List.length fp)) by reflexivity.
    set (v := digits_value (f :: fp) (digits_value (nm_ip m) 0)) in *.
    assert (Z2 : Nat.eqb n2 0 = false) by (rewrite N2; reflexivity). rewrite Z2. cbn iota beta. rewrite Cmark. rewrite Rs. cbn iota beta. rewrite Rd, Ne.
    cbn [negb andb]. cbn iota beta.
    set (ez := if ex_neg e then (- ev)%Z else ev) in *.
    destruct (Z.eqb v 0) eqn:Ez.
    + apply Z.eqb_eq in Ez. eexists; split; [reflexivity|]. rewrite Ez. unfold scale10.
      destruct (nm_neg m); cbn [Z.opp]; destruct (Z.leb 0 (ez - Z.of_nat n2)); cbn; reflexivity.
    + assert (L1 : Z.ltb 400 (ez - Z.of_nat n2 + Z.of_nat (S (n1 + n2))) = false) by (apply Z.ltb_ge; lia).
      assert (L2 : Z.ltb (ez - Z.of_nat n2) (-800) = false) by (apply Z.ltb_ge; lia).
      rewrite L1, L2.
      change (if (0 <=? ez - Z.of_nat n2)%Z then inject_Z ((if nm_neg m then (- v)%Z else v) * 10 ^ (ez - Z.of_nat n2))
              else (if nm_neg m then (- v)%Z else v) # Z.to_pos (10 ^ (- (ez - Z.of_nat n2))))
        with (scale10 (if nm_neg m then (- v)%Z else v) (ez - Z.of_nat n2)).
      rewrite scale10_below_limit.
      * eexists; split; [reflexivity | reflexivity].
      * destruct (nm_neg m); lia.
      * right. exists (Z.of_nat (S n1 + n2)). split; [lia|]. split; [| lia].
        pose proof (digits_value_bound (nm_ip m) Hi 0 ltac:(lia)) as B1. rewrite En1 in B1.
        pose proof (digits_value_nonneg (nm_ip m) 0 ltac:(lia)) as N1.
        pose proof (digits_value_bound (f :: fp) Hf' (digits_value (nm_ip m) 0) N1) as B2. fold n2 in B2. fold v in B2.
        assert (P2 : (0 < 10 ^ Z.of_nat n2)%Z) by (apply Z.pow_pos_nonneg; lia).
        rewrite Nat2Z.inj_add, Z.pow_add_r by lia. destruct (nm_neg m); nia.
Qed.

Example exponent_example :
  let m := {| nm_neg := false; nm_plus := false; nm_ip := [2]%nat; nm_fp := [1]%nat |} in
  let e := {| ex_upper := false; ex_neg := false; ex_plus := true; ex_digits := [0; 7]%nat |} in
  numeral_string m ++ exponent_string e = "2.1e+07" /\ (enumeral_value m e == 21000000 # 1)%Q /\ parse_float "2.1e+07" = NumOk (21000000 # 1).
Proof. cbv zeta. split; [reflexivity|]. split; reflexivity. Qed.
