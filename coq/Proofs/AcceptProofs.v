(* Proofs about the decision solve takes on the solver's answer (Model/Recover.v accept). *)
From Coq Require Import ZArith QArith Qabs List Bool Arith Lia.
From Inkfem Require Import Num.NumOps Model.Types Model.Slice Model.Dof Model.Assemble Model.Recover.
Import ListNotations.
Local Open Scope Q_scope.

Lemma all_finite_no_none (o : list (option Q)) :
  all_finite o = true <-> ~ In None o.
Proof.
  unfold all_finite. rewrite forallb_forall. split.
  - intros H Hin. specialize (H None Hin). discriminate.
  - intros H x Hx. destruct x; [reflexivity | contradiction].
Qed.

Lemma strip_length (o : list (option Q)) : length (strip o) = length o.
Proof. unfold strip. apply map_length. Qed.

Lemma accept_sound eps K f o u :
  accept eps K f o = Some u ->
  ~ In None o /\ u = strip o /\ length u = length f /\
  forall i, (i < length f)%nat -> Qabs (residual K f u i) <= eps.
Proof.
  unfold accept. intros H.
  destruct (all_finite o && (length o =? length f)%nat &&
            forallb (fun i => nleb (nabs (residual K f (strip o) i)) eps) (seq 0 (length f))) eqn:E;
    [| discriminate].
  injection H as <-.
  apply andb_prop in E as [E1 E3]. apply andb_prop in E1 as [E1 E2].
  apply Nat.eqb_eq in E2.
  repeat split.
  - apply all_finite_no_none; exact E1.
  - rewrite strip_length; exact E2.
  - intros i Hi. rewrite forallb_forall in E3.
    specialize (E3 i). rewrite in_seq in E3. cbn [nleb nabs QCmp] in E3.
    apply Qle_bool_iff. apply E3. lia.
Qed.

Lemma accept_complete eps K f o :
  ~ In None o -> length o = length f ->
  (forall i, (i < length f)%nat -> Qabs (residual K f (strip o) i) <= eps) ->
  accept eps K f o = Some (strip o).
Proof.
  intros Hfin Hlen Hres. unfold accept.
  replace (all_finite o) with true by (symmetry; apply all_finite_no_none; exact Hfin).
  replace (length o =? length f)%nat with true by (symmetry; apply Nat.eqb_eq; exact Hlen).
  cbn [andb].
  replace (forallb _ _) with true; [reflexivity|].
  symmetry. apply forallb_forall. intros i Hi. apply in_seq in Hi.
  cbn [nleb nabs QCmp]. apply Qle_bool_iff. apply Hres. lia.
Qed.

Lemma accept_rejects_nonfinite eps K f o : In None o -> accept eps K f o = None.
Proof.
  intros Hin. unfold accept.
  destruct (all_finite o) eqn:E; [| reflexivity].
  apply all_finite_no_none in E. contradiction.
Qed.

Lemma accept_rejects_residual eps K f o i :
  (i < length f)%nat -> ~ Qabs (residual K f (strip o) i) <= eps -> accept eps K f o = None.
Proof.
  intros Hi Hbig. destruct (accept eps K f o) eqn:E; [| reflexivity].
  apply accept_sound in E as (_ & -> & _ & H). exfalso. apply Hbig. apply H. exact Hi.
Qed.

(* a trivial equation (row i holds the single entry 1 on the diagonal, right-hand side 0):
   the accepted value is within eps of zero *)
Definition trivial_row (K : list (nat * nat * Q)) (i : nat) : Prop :=
  forall u, row_dot K u i == uget u i.

Lemma accept_supported eps K f o u i :
  accept eps K f o = Some u -> (i < length f)%nat -> trivial_row K i -> uget f i == 0 ->
  Qabs (uget u i) <= eps.
Proof.
  intros H Hi Ht Hf. apply accept_sound in H as (_ & _ & _ & H).
  specialize (H i Hi).
  assert (Heq : residual K f u i == - uget u i).
  { unfold residual. cbn [nsub QOps]. rewrite (Ht u), Hf. ring. }
  rewrite Heq, Qabs_opp in H. exact H.
Qed.

(* what the command does with the verdict: the solution file is created only for an accepted
   answer (cmd/solve.go: process.Solve panics before CreateFile is reached) *)
Inductive outcome := Failed | Wrote (u : list Q).
Definition solve_outcome eps K f o : outcome :=
  match accept eps K f o with Some u => Wrote u | None => Failed end.
Definition files_after {A} (fs : list (A * list Q)) (path : A) (r : outcome) : list (A * list Q) :=
  match r with Failed => fs | Wrote u => (path, u) :: fs end.

Lemma failed_writes_nothing {A} eps K f o (fs : list (A * list Q)) path :
  solve_outcome eps K f o = Failed -> files_after fs path (solve_outcome eps K f o) = fs.
Proof. intros ->. reflexivity. Qed.

Lemma written_is_good {A} eps K f o (fs : list (A * list Q)) path u :
  In (path, u) (files_after fs path (solve_outcome eps K f o)) -> ~ In (path, u) fs ->
  ~ In None o /\ forall i, (i < length f)%nat -> Qabs (residual K f u i) <= eps.
Proof.
  unfold solve_outcome. destruct (accept eps K f o) as [v|] eqn:E; cbn.
  - intros [H|H] Hn; [| contradiction]. injection H as <-.
    apply accept_sound in E as (H1 & _ & _ & H4). split; assumption.
  - intros H Hn. contradiction.
Qed.
