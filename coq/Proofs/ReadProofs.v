(* Proofs about the reader model (Model/Read.v): every content line of an accepted text is
   accounted for, dangling references are errors, layout noise is invisible. *)
From Coq Require Import ZArith QArith NArith Arith List String Ascii Bool Lia.
From Inkfem Require Import Model.Types Model.Regex Gen.GenRegex Model.Read.
Import ListNotations.
Local Open Scope string_scope.
Local Close Scope Q_scope.

(* ---- maps keyed by id ---- *)
Lemma lookup_upsert_same {A} (key : A -> string) (x : A) l : lookup_by key (key x) (upsert key x l) = Some x.
Proof.
  induction l as [|y t IH]; cbn.
  - rewrite String.eqb_refl. reflexivity.
  - destruct (String.eqb (key y) (key x)) eqn:E; cbn.
    + rewrite String.eqb_refl. reflexivity.
    + rewrite E. exact IH.
Qed.

Lemma lookup_upsert_keeps {A} (key : A -> string) (x : A) k l :
  lookup_by key k l <> None -> lookup_by key k (upsert key x l) <> None.
Proof.
  induction l as [|y t IH]; cbn; [congruence|].
  destruct (String.eqb (key y) (key x)) eqn:E; cbn.
  - destruct (String.eqb (key y) k) eqn:E2.
    + apply String.eqb_eq in E, E2. rewrite <- E, E2, String.eqb_refl. congruence.
    + apply String.eqb_eq in E. rewrite <- E, E2. auto.
  - destruct (String.eqb (key y) k); [congruence | exact IH].
Qed.

Lemma lookup_by_key {A} (key : A -> string) k l x : lookup_by key k l = Some x -> key x = k /\ In x l.
Proof.
  induction l as [|y t IH]; cbn; [congruence|].
  destruct (String.eqb (key y) k) eqn:E.
  - intros H. injection H as <-. apply String.eqb_eq in E. auto.
  - intros H. destruct (IH H). auto.
Qed.

(* ---- what one content line can be ---- *)
Definition known_section (s : string) : Prop :=
  s = "nodes" \/ s = "materials" \/ s = "sections" \/ s = "loads" \/ s = "bars".

(* the line is a section header, or it is accepted by the grammar of the section in force and
   what it defines is in the resulting state *)
Definition accounted (st' : rstate) (sec line : string) : Prop :=
  rmatches re_io_genericSectionHeaderRegex line = true \/
  (sec = "nodes" /\ exists n, deserialize_node line = Ok n /\ lookup_by rn_id (rn_id n) (s_nodes st') <> None) \/
  (sec = "materials" /\ exists m, deserialize_material line = Ok m /\ lookup_by rm_name (rm_name m) (s_mats st') <> None) \/
  (sec = "sections" /\ exists m, deserialize_section line = Ok m /\ lookup_by rs_name (rs_name m) (s_secs st') <> None) \/
  (sec = "loads" /\ ((exists l, deserialize_load line = Ok (LConc l) /\ In l (s_cl st')) \/
                     (exists l, deserialize_load line = Ok (LDist l) /\ In l (s_dl st')))) \/
  (sec = "bars" /\ exists b, deserialize_bar line = Ok b /\ In b (s_bars st')).

(* a state only grows *)
Definition extends (a b : rstate) : Prop :=
  (forall k, lookup_by rn_id k (s_nodes a) <> None -> lookup_by rn_id k (s_nodes b) <> None) /\
  (forall k, lookup_by rm_name k (s_mats a) <> None -> lookup_by rm_name k (s_mats b) <> None) /\
  (forall k, lookup_by rs_name k (s_secs a) <> None -> lookup_by rs_name k (s_secs b) <> None) /\
  (forall l, In l (s_cl a) -> In l (s_cl b)) /\ (forall l, In l (s_dl a) -> In l (s_dl b)) /\
  (forall x, In x (s_bars a) -> In x (s_bars b)).

Lemma extends_refl a : extends a a.
Proof. repeat split; auto. Qed.
Lemma extends_trans a b c : extends a b -> extends b c -> extends a c.
Proof. intros (A1 & A2 & A3 & A4 & A5 & A6) (B1 & B2 & B3 & B4 & B5 & B6). repeat split; auto. Qed.

Lemma accounted_mono a b sec line : extends a b -> accounted a sec line -> accounted b sec line.
Proof.
  intros (E1 & E2 & E3 & E4 & E5 & E6) H. unfold accounted in *.
  destruct H as [H|[(S & n & D & L)|[(S & n & D & L)|[(S & n & D & L)|[(S & [(l & D & L)|(l & D & L)])|(S & n & D & L)]]]]].
  - left; exact H.
  - right; left. split; [exact S|]. exists n. auto.
  - right; right; left. split; [exact S|]. exists n. auto.
  - right; right; right; left. split; [exact S|]. exists n. auto.
  - right; right; right; right; left. split; [exact S|]. left. exists l. auto.
  - right; right; right; right; left. split; [exact S|]. right. exists l. auto.
  - right; right; right; right; right. split; [exact S|]. exists n. auto.
Qed.

(* one step: either an error, or the line is accounted for in the new state, which extends the old *)
Lemma step_accounts st line st' :
  step st line = Ok st' ->
  extends st st' /\
  (rmatches re_io_genericSectionHeaderRegex line = true \/ (s_section st' = s_section st /\ known_section (s_section st))) /\
  accounted st' (s_section st) line.
Proof.
  unfold step. destruct (rmatches re_io_genericSectionHeaderRegex line) eqn:Hh.
  - destruct (rsearch re_io_genericSectionHeaderRegex line); [| discriminate].
    intros H. injection H as <-. split; [repeat split; auto|]. split; [left; reflexivity|]. left. exact Hh.
  - destruct (String.eqb (s_section st) "nodes") eqn:S1.
    { apply String.eqb_eq in S1. destruct (deserialize_node line) as [n|] eqn:D; [| discriminate].
      intros H. injection H as <-. split; [| split].
      - repeat split; cbn; auto. intros k. apply lookup_upsert_keeps.
      - right. split; [reflexivity|]. left. exact S1.
      - right; left. split; [exact S1|]. exists n. split; [exact D|]. cbn. rewrite lookup_upsert_same. discriminate. }
    destruct (String.eqb (s_section st) "materials") eqn:S2.
    { apply String.eqb_eq in S2. destruct (deserialize_material line) as [n|] eqn:D; [| discriminate].
      intros H. injection H as <-. split; [| split].
      - repeat split; cbn; auto. intros k. apply lookup_upsert_keeps.
      - right. split; [reflexivity|]. right; left. exact S2.
      - right; right; left. split; [exact S2|]. exists n. split; [exact D|]. cbn. rewrite lookup_upsert_same. discriminate. }
    destruct (String.eqb (s_section st) "sections") eqn:S3.
    { apply String.eqb_eq in S3. destruct (deserialize_section line) as [n|] eqn:D; [| discriminate].
      intros H. injection H as <-. split; [| split].
      - repeat split; cbn; auto. intros k. apply lookup_upsert_keeps.
      - right. split; [reflexivity|]. right; right; left. exact S3.
      - right; right; right; left. split; [exact S3|]. exists n. split; [exact D|]. cbn. rewrite lookup_upsert_same. discriminate. }
    destruct (String.eqb (s_section st) "loads") eqn:S4.
    { apply String.eqb_eq in S4. destruct (deserialize_load line) as [[l|l]|] eqn:D; [| | discriminate].
      - intros H. injection H as <-. split; [| split].
        + repeat split; cbn; auto. intros x Hx. apply in_or_app. left; exact Hx.
        + right. split; [reflexivity|]. right; right; right; left. exact S4.
        + right; right; right; right; left. split; [exact S4|]. left. exists l. split; [exact D|]. cbn. apply in_or_app. right. left. reflexivity.
      - intros H. injection H as <-. split; [| split].
        + repeat split; cbn; auto. intros x Hx. apply in_or_app. left; exact Hx.
        + right. split; [reflexivity|]. right; right; right; left. exact S4.
        + right; right; right; right; left. split; [exact S4|]. right. exists l. split; [exact D|]. cbn. apply in_or_app. right. left. reflexivity. }
    destruct (String.eqb (s_section st) "bars") eqn:S5; [| discriminate].
    apply String.eqb_eq in S5. destruct (deserialize_bar line) as [b|] eqn:D; [| discriminate].
    intros H. injection H as <-. split; [| split].
    + repeat split; cbn; auto. intros x Hx. apply in_or_app. left; exact Hx.
    + right. split; [reflexivity|]. right; right; right; right. exact S5.
    + right; right; right; right; right. split; [exact S5|]. exists b. split; [exact D|]. cbn. apply in_or_app. right. left. reflexivity.
Qed.

(* the section in force at every line of a list, starting from a given one *)
Fixpoint sections_along (sec : string) (lines : list string) : list (string * string) :=
  match lines with
  | [] => []
  | l :: t =>
    match rsearch re_io_genericSectionHeaderRegex l with
    | Some c => (sec, l) :: sections_along (group l c 1) t
    | None => (sec, l) :: sections_along sec t
    end
  end.

Lemma step_section st line st' : step st line = Ok st' ->
  s_section st' = match rsearch re_io_genericSectionHeaderRegex line with Some c => group line c 1 | None => s_section st end.
Proof.
  intros H. pose proof H as H0. unfold step in H. unfold rmatches in H.
  destruct (rsearch re_io_genericSectionHeaderRegex line) as [c|] eqn:E.
  - injection H as <-. reflexivity.
  - destruct (step_accounts st line st' H0) as (_ & [Hh | [Hs _]] & _).
    + unfold rmatches in Hh. rewrite E in Hh. discriminate.
    + exact Hs.
Qed.

(* every content line of an accepted text is accounted for: no part of the input is ignored *)
Theorem steps_account : forall lines st st',
  steps st lines = Ok st' ->
  extends st st' /\ Forall (fun p => accounted st' (fst p) (snd p)) (sections_along (s_section st) lines).
Proof.
  induction lines as [|l t IH]; intros st st' H; cbn in H.
  - injection H as <-. split; [apply extends_refl | constructor].
  - destruct (step st l) as [st1|] eqn:S; [| discriminate].
    destruct (step_accounts st l st1 S) as (E1 & _ & A1).
    destruct (IH st1 st' H) as (E2 & F).
    split; [eapply extends_trans; eauto|].
    cbn [sections_along]. rewrite (step_section st l st1 S) in F.
    destruct (rsearch re_io_genericSectionHeaderRegex l); constructor; cbn; try exact F;
      eapply accounted_mono; eauto.
Qed.

(* ---- linking: nothing dangles in an accepted structure ---- *)
Lemma link_bar_ok st b lb : link_bar st b = Ok lb ->
  lb_bar lb = b /\ rn_id (lb_start lb) = rb_n1 b /\ In (lb_start lb) (s_nodes st) /\
  rn_id (lb_end lb) = rb_n2 b /\ In (lb_end lb) (s_nodes st) /\
  rm_name (lb_material lb) = rb_mat b /\ In (lb_material lb) (s_mats st) /\
  rs_name (lb_section lb) = rb_sec b /\ In (lb_section lb) (s_secs st) /\
  lb_cl lb = map rc_load (filter (fun l => String.eqb (rc_bar l) (rb_id b)) (s_cl st)) /\
  lb_dl lb = map rd_load (filter (fun l => String.eqb (rd_bar l) (rb_id b)) (s_dl st)).
Proof.
  unfold link_bar.
  destruct (lookup_by rn_id (rb_n1 b) (s_nodes st)) as [n1|] eqn:L1; [| discriminate].
  destruct (lookup_by rn_id (rb_n2 b) (s_nodes st)) as [n2|] eqn:L2; [| discriminate].
  destruct (lookup_by rs_name (rb_sec b) (s_secs st)) as [sc|] eqn:L3; [| discriminate].
  destruct (lookup_by rm_name (rb_mat b) (s_mats st)) as [m|] eqn:L4; [| discriminate].
  intros H. injection H as <-. cbn.
  destruct (lookup_by_key _ _ _ _ L1), (lookup_by_key _ _ _ _ L2), (lookup_by_key _ _ _ _ L3), (lookup_by_key _ _ _ _ L4).
  repeat split; auto.
Qed.

Lemma link_bar_dangling st b :
  (lookup_by rn_id (rb_n1 b) (s_nodes st) = None \/ lookup_by rn_id (rb_n2 b) (s_nodes st) = None \/
   lookup_by rs_name (rb_sec b) (s_secs st) = None \/ lookup_by rm_name (rb_mat b) (s_mats st) = None) ->
  exists e, link_bar st b = Err e.
Proof.
  unfold link_bar. intros H.
  destruct (lookup_by rn_id (rb_n1 b) (s_nodes st)); [| eexists; reflexivity].
  destruct (lookup_by rn_id (rb_n2 b) (s_nodes st)); [| eexists; reflexivity].
  destruct (lookup_by rs_name (rb_sec b) (s_secs st)); [| eexists; reflexivity].
  destruct (lookup_by rm_name (rb_mat b) (s_mats st)); [| eexists; reflexivity].
  destruct H as [H|[H|[H|H]]]; discriminate.
Qed.

Lemma link_bars_ok st : forall bs lbs, link_bars st bs = Ok lbs -> map lb_bar lbs = bs /\ Forall (fun lb => link_bar st (lb_bar lb) = Ok lb) lbs.
Proof.
  induction bs as [|b t IH]; intros lbs H; cbn in H.
  - injection H as <-. split; [reflexivity | constructor].
  - destruct (link_bar st b) as [lb|] eqn:L; [| discriminate].
    destruct (link_bars st t) as [l|] eqn:R; [| discriminate]. injection H as <-.
    destruct (IH l eq_refl) as (M & F). destruct (link_bar_ok st b lb L) as (Hb & _).
    split; [cbn; rewrite Hb, M; reflexivity|]. constructor; [rewrite Hb; exact L | exact F].
Qed.

(* an accepted file: version read, every line accounted for, every bar linked to defined
   nodes / material / section, every load attached to a defined bar *)
Theorem read_lines_ok v rest s : read_lines (v :: rest) = Ok s ->
  parse_version v = Ok (st_major s, st_minor s) /\
  exists st, steps state0 rest = Ok st /\
    Forall (fun p => accounted st (fst p) (snd p)) (sections_along "" rest) /\
    st_nodes s = s_nodes st /\ map lb_bar (st_bars s) = s_bars st /\
    Forall (fun lb => link_bar st (lb_bar lb) = Ok lb) (st_bars s) /\
    (forall l, In l (s_cl st) -> exists b, In b (s_bars st) /\ rb_id b = rc_bar l) /\
    (forall l, In l (s_dl st) -> exists b, In b (s_bars st) /\ rb_id b = rd_bar l).
Proof.
  cbn [read_lines]. destruct (parse_version v) as [[ma mi]|] eqn:V; [| discriminate].
  destruct (steps state0 rest) as [st|] eqn:S; [| discriminate].
  destruct (link_bars st (s_bars st)) as [bars|] eqn:L; [| discriminate].
  destruct (loads_have_bars st) eqn:H; [| discriminate].
  intros E. injection E as <-. cbn.
  split; [reflexivity|]. exists st. split; [reflexivity|].
  destruct (steps_account rest state0 st S) as (_ & F).
  destruct (link_bars_ok st _ _ L) as (M & FL).
  unfold loads_have_bars in H. apply andb_prop in H as [H1 H2].
  rewrite forallb_forall in H1, H2.
  repeat split; auto.
  - intros l Hl. specialize (H1 l Hl). apply existsb_exists in H1 as (b & Hb & E). apply String.eqb_eq in E. eauto.
  - intros l Hl. specialize (H2 l Hl). apply existsb_exists in H2 as (b & Hb & E). apply String.eqb_eq in E. eauto.
Qed.

(* an empty text, or one whose first content line is not the version header, is rejected *)
Lemma read_needs_version lines :
  (lines = [] \/ exists v rest, lines = v :: rest /\ rsearch re_io_versionRegex v = None) -> read_lines lines = Err EVersion.
Proof.
  intros [-> | (v & rest & -> & H)]; [reflexivity|].
  cbn [read_lines]. unfold parse_version. rewrite H. reflexivity.
Qed.

(* a content line that is neither a header nor accepted by the grammar of its section makes
   the whole text an error *)
Lemma steps_error_propagates : forall l1 st st1 x l2 e,
  steps st l1 = Ok st1 -> step st1 x = Err e -> steps st (l1 ++ x :: l2) = Err e.
Proof.
  induction l1 as [|y t IH]; intros st st1 x l2 e H1 H2; cbn in *.
  - injection H1 as <-. rewrite H2. reflexivity.
  - destruct (step st y) as [st'|]; [| discriminate]. eapply IH; eauto.
Qed.

Lemma step_unknown_section st line :
  rmatches re_io_genericSectionHeaderRegex line = false -> ~ known_section (s_section st) -> step st line = Err EUnknownHeader.
Proof.
  intros Hh Hk. unfold step. rewrite Hh.
  destruct (String.eqb (s_section st) "nodes") eqn:S1; [apply String.eqb_eq in S1; exfalso; apply Hk; left; exact S1|].
  destruct (String.eqb (s_section st) "materials") eqn:S2; [apply String.eqb_eq in S2; exfalso; apply Hk; right; left; exact S2|].
  destruct (String.eqb (s_section st) "sections") eqn:S3; [apply String.eqb_eq in S3; exfalso; apply Hk; right; right; left; exact S3|].
  destruct (String.eqb (s_section st) "loads") eqn:S4; [apply String.eqb_eq in S4; exfalso; apply Hk; right; right; right; left; exact S4|].
  destruct (String.eqb (s_section st) "bars") eqn:S5; [apply String.eqb_eq in S5; exfalso; apply Hk; right; right; right; right; exact S5|].
  reflexivity.
Qed.

(* ---- layout noise ---- *)
Lemma ignored_lines_invisible (l1 l2 : list string) (x : string) :
  should_ignore (trim x) = true ->
  filter (fun l => negb (should_ignore l)) (map trim (l1 ++ x :: l2)) =
  filter (fun l => negb (should_ignore l)) (map trim (l1 ++ l2)).
Proof.
  intros H. rewrite !map_app, !filter_app. cbn [map filter]. rewrite H. reflexivity.
Qed.

Fixpoint all_space (s : string) : bool :=
  match s with EmptyString => true | String a r => is_space a && all_space r end.
Lemma ltrim_pad (p s : string) : all_space p = true -> ltrim (p ++ s) = ltrim s.
Proof.
  induction p as [|a r IH]; cbn; intros H; [reflexivity|].
  apply andb_prop in H as [Ha Hr]. rewrite Ha. apply IH. exact Hr.
Qed.
