(* C12: the system of equations is a function of what a .inkfempre file records about a sliced structure - per bar its
   length, direction, material and section values; per slice node its position, its three loads and its equation
   numbers.  Two sliced structures that agree on those (whatever else differs: names, the user's loads, coordinates,
   end links) get the same matrix, the same load vector (up to ==) and hence the same solutions. *)
From Coq Require Import ZArith QArith Qabs List Bool Arith Lia Lqa Setoid Morphisms.
From Inkfem Require Import Num.NumOps Gen.GenStiffness Spec.Superposition Spec.Resultant Model.Types Model.Slice Model.Dof Model.Assemble
  Proofs.AssembleProofs Proofs.SystemProofs Proofs.UnitsBar Proofs.LinearStructure Proofs.MovedStructure.
Import ListNotations.
Local Open Scope Q_scope.

Definition node_recorded_alike (n n' : pnode Q) : Prop :=
  pn_t n' = pn_t n /\ tor_eq (pn_ext n') (pn_ext n) /\ tor_eq (pn_left n') (pn_left n) /\ tor_eq (pn_right n') (pn_right n).

Record recorded_alike (p p' : pbar Q) : Prop := {
  ra_L : b_L (pb_bar p') = b_L (pb_bar p);
  ra_c : b_c (pb_bar p') = b_c (pb_bar p);
  ra_s : b_s (pb_bar p') = b_s (pb_bar p);
  ra_E : b_E (pb_bar p') = b_E (pb_bar p);
  ra_A : b_A (pb_bar p') = b_A (pb_bar p);
  ra_I : b_I (pb_bar p') = b_I (pb_bar p);
  ra_dofs : pb_dofs p' = pb_dofs p;
  ra_nodes : Forall2 node_recorded_alike (pb_nodes p) (pb_nodes p') }.

Lemma recorded_contribs p p' : recorded_alike p p' -> bar_contribs p' = bar_contribs p.
Proof.
  intros [HL Hc Hs HE HA HI Hd Hn]. unfold bar_contribs. rewrite Hd.
  destruct Hn as [|n n' r r' (Tn & _) Hr]; [reflexivity|]. destruct (pb_dofs p) as [|e ds]; [reflexivity|]. cbn [combine].
  assert (Hb : forall x dx rest, bar_contribs_from (pb_bar p') x dx rest = bar_contribs_from (pb_bar p) x dx rest).
  { intros x dx rest. revert x dx. induction rest as [|(y, dy) rest IHr]; intros x dx; [reflexivity|].
    cbn [bar_contribs_from]. rewrite IHr. unfold slice_contribs. rewrite HL, Hc, Hs, HE, HA, HI. reflexivity. }
  rewrite Hb. apply contribs_from_positions; [exact Tn|].
  clear -Hr. induction Hr as [|m m' r r' (Tm & _) _ IH]; constructor; assumption.
Qed.

Lemma recorded_fterms p p' i : recorded_alike p p' -> fraw_at (bar_fterms p') i == fraw_at (bar_fterms p) i.
Proof.
  intros [HL Hc Hs HE HA HI Hd Hn]. unfold bar_fterms. rewrite Hd. generalize (pb_dofs p) as d.
  induction Hn as [|n n' r r' Hnn _ IH]; intros d; [reflexivity|].
  destruct d as [|e ds]; [reflexivity|]. cbn [combine flat_map]. rewrite !fraw_at_app, (IH ds).
  assert (E : fraw_at (node_fterms (pb_bar p') (n', e)) i == fraw_at (node_fterms (pb_bar p) (n, e)) i).
  { destruct (net_same n n' Hnn) as (H1 & H2 & H3).
    unfold node_fterms. rewrite Hc, Hs. rewrite !fraw_at_cons, !fraw_at_nil. cbn [fst snd].
    unfold to_global, t_fx, t_fy, t_mz in *. cbn [fst snd nadd nmul nsub QOps] in *.
    destruct (Nat.eqb (fst (fst e)) i), (Nat.eqb (snd (fst e)) i), (Nat.eqb (snd e) i); rewrite ?H1, ?H2, ?H3; reflexivity. }
  rewrite E. reflexivity.
Qed.

Lemma recorded_all_contribs bars bars' : Forall2 recorded_alike bars bars' -> all_contribs bars' = all_contribs bars.
Proof.
  unfold all_contribs. induction 1 as [|p p' r r' H _ IH]; [reflexivity|].
  cbn [flat_map]. rewrite IH, (recorded_contribs p p' H). reflexivity.
Qed.

Lemma recorded_all_fterms bars bars' i : Forall2 recorded_alike bars bars' -> fraw_at (all_fterms bars') i == fraw_at (all_fterms bars) i.
Proof.
  unfold all_fterms. induction 1 as [|p p' r r' H _ IH]; [reflexivity|].
  cbn [flat_map]. rewrite !fraw_at_app, IH, (recorded_fterms p p' i H). reflexivity.
Qed.

(* THEOREM (C12): what the file records determines the system and its solutions *)
Theorem recorded_values_determine_the_system (n : nat) (bars bars' : list (pbar Q)) (sup : list nat) (u : list Q) :
  Forall2 recorded_alike bars bars' ->
  (forall i j, k_final (all_contribs bars') sup i j = k_final (all_contribs bars) sup i j) /\
  (forall i, f_final (all_fterms bars') sup i == f_final (all_fterms bars) sup i) /\
  (solves n bars sup u <-> solves n bars' sup u).
Proof.
  intros H.
  assert (K : all_contribs bars' = all_contribs bars) by (apply recorded_all_contribs; exact H).
  assert (F : forall i, f_final (all_fterms bars') sup i == f_final (all_fterms bars) sup i).
  { intro i. unfold f_final. destruct (is_supported sup i); [reflexivity | apply recorded_all_fterms; exact H]. }
  split; [intros i j; rewrite K; reflexivity|]. split; [exact F|].
  unfold solves. rewrite K. split; intros S i Hi; [rewrite F | rewrite <- F]; apply S; exact Hi.
Qed.

(* the relation is not empty: a sliced bar and the same bar under another name, other coordinates and other user loads *)
Lemma recorded_alike_refl p : recorded_alike p p.
Proof.
  constructor; try reflexivity. induction (pb_nodes p) as [|n ns IH]; constructor; [|exact IH].
  repeat split; reflexivity.
Qed.
