(* The written files, as documents.  Gen/GenTemplates.v holds the parse trees of the three output
   templates as regenerated from /repo on every run; Model/Template.v interprets them the way
   text/template does (tied to Go's own output by correspondence stage G).  Here: what each
   template renders, for EVERY value, is exactly the documented layout - written out below as an
   ordinary function from the data to text, independent of the template.  A template edit that
   reorders, drops or duplicates anything makes these proofs fail. *)
From Coq Require Import String Ascii List Bool Arith Lia.
From Inkfem Require Import Model.Template Gen.GenTemplates.
Import ListNotations.
Local Open Scope string_scope.

Lemma append_nil_r (s : string) : s ++ "" = s.
Proof. induction s as [|c s IH]; cbn; [reflexivity | rewrite IH; reflexivity]. Qed.
Lemma concat_map_ext {A} (f g : A -> string) (l : list A) :
  (forall x, f x = g x) -> String.concat "" (map f l) = String.concat "" (map g l).
Proof. intros H. f_equal. apply map_ext. exact H. Qed.

Ltac peel :=
  repeat match goal with
  | |- String ?c _ = String ?c _ => apply f_equal
  | |- String.concat "" (map _ ?l) ++ _ = String.concat "" (map _ ?l) ++ _ => apply f_equal2; [apply concat_map_ext; intros |]
  | |- String.concat "" (map _ ?l) = String.concat "" (map _ ?l) => apply concat_map_ext; intros
  | |- ?a ++ _ = ?a ++ _ => apply f_equal
  end.

(* one line per element of a list, each preceded by a line feed *)
Definition lines (l : list string) : string := String.concat "" (map (fun s => nl ++ s) l).

(* ================= .inkfemsol ================= *)

(* what goes into a solution file, every number already printed *)
Record sol_reaction := { sr_id : string; sr_fx : string; sr_fy : string; sr_mz : string }.
Record sol_bar := {
  sb_id : string; sb_n1 : string; sb_l1 : string; sb_n2 : string; sb_l2 : string; sb_mat : string; sb_sec : string;
  sb_gdx : list string; sb_gdy : list string; sb_grz : list string;       (* one "t : value" line per slice node *)
  sb_ldx : list string; sb_ldy : list string; sb_lrz : list string;
  sb_axial : list string; sb_shear : list string; sb_bend : list string; sb_tf : list string }.
Record sol_doc := { sd_major : string; sd_minor : string; sd_reactions : list sol_reaction; sd_bars : list sol_bar }.

(* the value as the template sees it (paths as they are written in the template) *)
Definition line_ctx (s : string) : string * ctxt := ("", Ctx [("String", s)] [] []).
Definition reaction_ctx (r : sol_reaction) : string * ctxt :=
  (sr_id r, Ctx [("Fx", sr_fx r); ("Fy", sr_fy r); ("Mz", sr_mz r)] [] []).
Definition bar_ctx (b : sol_bar) : string * ctxt :=
  ("", Ctx [("GetID", sb_id b); ("StartNodeID", sb_n1 b); ("StartLink", sb_l1 b); ("EndNodeID", sb_n2 b); ("EndLink", sb_l2 b);
            ("Material.Name", sb_mat b); ("Section.Name", sb_sec b)]
           [("GlobalXDispl", map line_ctx (sb_gdx b)); ("GlobalYDispl", map line_ctx (sb_gdy b)); ("GlobalZRot", map line_ctx (sb_grz b));
            ("LocalXDispl", map line_ctx (sb_ldx b)); ("LocalYDispl", map line_ctx (sb_ldy b)); ("LocalZRot", map line_ctx (sb_lrz b));
            ("AxialStress", map line_ctx (sb_axial b)); ("ShearForce", map line_ctx (sb_shear b)); ("BendingMoment", map line_ctx (sb_bend b));
            ("BendingMomentTopFiberAxialStress", map line_ctx (sb_tf b))] []).
Definition sol_ctx (d : sol_doc) : ctxt :=
  Ctx [("Metadata.MajorVersion", sd_major d); ("Metadata.MinorVersion", sd_minor d)]
      [("NodeReactions", map reaction_ctx (sd_reactions d)); ("Elements", map bar_ctx (sd_bars d))] [].

(* THE DOCUMENTED LAYOUT: version header; |reactions| with one line per reaction entry; |bars| with
   one block per bar: its definition line, then the ten tags in this order, each followed by the
   lines of its series, then an empty line *)
Definition spec_reaction (r : sol_reaction) : string := nl ++ sr_id r ++ " -> " ++ sr_fx r ++ " " ++ sr_fy r ++ " " ++ sr_mz r.
Definition spec_bar (b : sol_bar) : string :=
  nl ++ sb_id b ++ " -> " ++ sb_n1 b ++ " " ++ sb_l1 b ++ " " ++ sb_n2 b ++ " " ++ sb_l2 b ++ " '" ++ sb_mat b ++ "' '" ++ sb_sec b ++ "'" ++
  nl ++ "__gdx__" ++ lines (sb_gdx b) ++ nl ++ "__gdy__" ++ lines (sb_gdy b) ++ nl ++ "__grz__" ++ lines (sb_grz b) ++
  nl ++ "__ldx__" ++ lines (sb_ldx b) ++ nl ++ "__ldy__" ++ lines (sb_ldy b) ++ nl ++ "__lrz__" ++ lines (sb_lrz b) ++
  nl ++ "__axial__" ++ lines (sb_axial b) ++ nl ++ "__shear__" ++ lines (sb_shear b) ++ nl ++ "__bend__" ++ lines (sb_bend b) ++
  nl ++ "__bend_axial_stress__" ++ lines (sb_tf b) ++ nl.
Definition spec_solution (d : sol_doc) : string :=
  "inkfem v" ++ sd_major d ++ "." ++ sd_minor d ++ nl ++ nl ++ "|reactions|" ++ String.concat "" (map spec_reaction (sd_reactions d)) ++
  nl ++ nl ++ "|bars|" ++ String.concat "" (map spec_bar (sd_bars d)) ++ nl.

Theorem solution_template_renders_the_documented_layout : forall d, render tmpl_solution (sol_ctx d) = spec_solution d.
Proof.
  intros d. unfold render, tmpl_solution, sol_ctx, spec_solution. cbn -[String.concat]. rewrite !map_map.
  peel.
  - unfold spec_reaction. cbn -[String.concat]. peel. rewrite append_nil_r. reflexivity.
  - unfold spec_bar, lines. cbn -[String.concat]. rewrite !map_map. peel;
      try (cbn -[String.concat]; rewrite append_nil_r; reflexivity).
    all: try reflexivity.
  - reflexivity.
Qed.

(* ================= .inkfempre ================= *)

Record pre_node := { wn_id : string; wn_px : string; wn_py : string; wn_cons : string;
                     wn_dofs : option string (* equation numbers, for nodes that have them *) }.
Record wr_material := { wm_name : string; wm_density : string; wm_young : string; wm_shear : string; wm_poisson : string; wm_yield : string; wm_ultimate : string }.
Record wr_section := { ws_name : string; ws_area : string; ws_istrong : string; ws_iweak : string; ws_sstrong : string; ws_sweak : string }.
Record pre_bar := { wb_id : string; wb_n1 : string; wb_l1 : string; wb_n2 : string; wb_l2 : string; wb_mat : string; wb_sec : string;
                    wb_count : string; wb_nodes : list string (* the six-line block of every slice node, as Node.String prints it *) }.
Record pre_doc := { pd_major : string; pd_minor : string; pd_dofs : string; pd_weight : bool;
                    pd_nodes : list pre_node; pd_mats : list wr_material; pd_secs : list wr_section; pd_bars : list pre_bar }.

Definition mat_ctx (m : wr_material) : string * ctxt :=
  ("", Ctx [("Name", wm_name m); ("Density", wm_density m); ("YoungMod", wm_young m); ("ShearMod", wm_shear m);
            ("PoissonRatio", wm_poisson m); ("YieldStrength", wm_yield m); ("UltimateStrength", wm_ultimate m)] [] []).
Definition sec_ctx (s : wr_section) : string * ctxt :=
  ("", Ctx [("Name", ws_name s); ("Area", ws_area s); ("IStrong", ws_istrong s); ("IWeak", ws_iweak s); ("SStrong", ws_sstrong s); ("SWeak", ws_sweak s)] [] []).
Definition pre_node_ctx (n : pre_node) : string * ctxt :=
  ("", Ctx ([("GetID", wn_id n); ("Position.X", wn_px n); ("Position.Y", wn_py n); ("ExternalConstraint", wn_cons n)] ++
            match wn_dofs n with Some d => [("DegreesOfFreedomNum", d)] | None => [] end) []
           [("HasDegreesOfFreedomNum", match wn_dofs n with Some _ => true | None => false end)]).
Definition pre_bar_ctx (b : pre_bar) : string * ctxt :=
  ("", Ctx [("GetID", wb_id b); ("StartNodeID", wb_n1 b); ("StartLink", wb_l1 b); ("EndNodeID", wb_n2 b); ("EndLink", wb_l2 b);
            ("Material.Name", wb_mat b); ("Section.Name", wb_sec b); ("NodesCount", wb_count b)]
           [("Nodes", map line_ctx (wb_nodes b))] []).
Definition pre_ctx (d : pre_doc) : ctxt :=
  Ctx [("Metadata.MajorVersion", pd_major d); ("Metadata.MinorVersion", pd_minor d); ("DofsCount", pd_dofs d)]
      [("GetAllNodes", map pre_node_ctx (pd_nodes d)); ("GetMaterialsByName", map mat_ctx (pd_mats d));
       ("GetSectionsByName", map sec_ctx (pd_secs d)); ("Elements", map pre_bar_ctx (pd_bars d))]
      [("IncludesOwnWeight", pd_weight d)].

Definition spec_material (m : wr_material) : string :=
  nl ++ "'" ++ wm_name m ++ "' -> " ++ wm_density m ++ " " ++ wm_young m ++ " " ++ wm_shear m ++ " " ++ wm_poisson m ++ " " ++ wm_yield m ++ " " ++ wm_ultimate m.
Definition spec_section (s : wr_section) : string :=
  nl ++ "'" ++ ws_name s ++ "' -> " ++ ws_area s ++ " " ++ ws_istrong s ++ " " ++ ws_iweak s ++ " " ++ ws_sstrong s ++ " " ++ ws_sweak s.
Definition spec_pre_node (n : pre_node) : string :=
  nl ++ wn_id n ++ " -> " ++ wn_px n ++ " " ++ wn_py n ++ " " ++ wn_cons n ++
  match wn_dofs n with Some d => " | " ++ d | None => "" end.
Definition spec_pre_bar (b : pre_bar) : string :=
  nl ++ wb_id b ++ " -> " ++ wb_n1 b ++ " " ++ wb_l1 b ++ " " ++ wb_n2 b ++ " " ++ wb_l2 b ++ " '" ++ wb_mat b ++ "' '" ++ wb_sec b ++ "' >> " ++ wb_count b ++
  lines (wb_nodes b) ++ nl.
Definition spec_preprocess (d : pre_doc) : string :=
  "inkfem v" ++ pd_major d ++ "." ++ pd_minor d ++ nl ++ nl ++ "dof_count: " ++ pd_dofs d ++ nl ++
  "includes_own_weight: " ++ (if pd_weight d then "yes" else "no") ++ nl ++ nl ++
  "|nodes|" ++ String.concat "" (map spec_pre_node (pd_nodes d)) ++ nl ++ nl ++
  "|materials|" ++ String.concat "" (map spec_material (pd_mats d)) ++ nl ++ nl ++
  "|sections|" ++ String.concat "" (map spec_section (pd_secs d)) ++ nl ++ nl ++
  "|bars|" ++ String.concat "" (map spec_pre_bar (pd_bars d)).

Theorem preprocess_template_renders_the_documented_layout : forall d, render tmpl_preprocess (pre_ctx d) = spec_preprocess d.
Proof.
  intros d. unfold render, tmpl_preprocess, pre_ctx, spec_preprocess. destruct (pd_weight d); cbn -[String.concat]; rewrite !map_map, ?append_nil_r.
  all: peel.
  all: try reflexivity.
  all: try (unfold spec_material, spec_section; cbn -[String.concat]; peel; rewrite ?append_nil_r; reflexivity).
  all: try match goal with n : pre_node |- _ => destruct n as [i px py c [d0|]]; unfold spec_pre_node; cbn -[String.concat]; rewrite ?append_nil_r; reflexivity end.
  all: unfold spec_pre_bar, lines; cbn -[String.concat]; rewrite ?map_map; peel;
    try (cbn -[String.concat]; rewrite ?append_nil_r; reflexivity); try reflexivity.
Qed.

(* ================= .inkfem ================= *)

Record def_node := { dn_id : string; dn_px : string; dn_py : string; dn_cons : string }.
Record def_cload := { dc_term : string; dc_local : bool; dc_t : string; dc_v : string }.
Record def_dload := { dd_term : string; dd_local : bool; dd_t0 : string; dd_v0 : string; dd_t1 : string; dd_v1 : string }.
Record def_bar := { db_id : string; db_n1 : string; db_l1 : string; db_n2 : string; db_l2 : string; db_mat : string; db_sec : string;
                    db_cl : list def_cload; db_dl : list def_dload }.
Record def_doc := { dd_major : string; dd_minor : string; dd_nodes : list def_node; dd_mats : list wr_material; dd_secs : list wr_section;
                    dd_bars : list def_bar }.

Definition def_node_ctx (n : def_node) : string * ctxt :=
  ("", Ctx [("GetID", dn_id n); ("Position.X", dn_px n); ("Position.Y", dn_py n); ("ExternalConstraint", dn_cons n)] [] []).
Definition cload_ctx (l : def_cload) : string * ctxt :=
  ("", Ctx [("Term", dc_term l); ("T.Value", dc_t l); ("Value", dc_v l)] [] [("IsInLocalCoords", dc_local l)]).
Definition dload_ctx (l : def_dload) : string * ctxt :=
  ("", Ctx [("Term", dd_term l); ("StartT.Value", dd_t0 l); ("StartValue", dd_v0 l); ("EndT.Value", dd_t1 l); ("EndValue", dd_v1 l)] []
           [("IsInLocalCoords", dd_local l)]).
Definition def_bar_ctx (b : def_bar) : string * ctxt :=
  ("", Ctx [("GetID", db_id b); ("StartNodeID", db_n1 b); ("StartLink", db_l1 b); ("EndNodeID", db_n2 b); ("EndLink", db_l2 b);
            ("Material.Name", db_mat b); ("Section.Name", db_sec b)]
           [("ConcentratedLoads", map cload_ctx (db_cl b)); ("DistributedLoads", map dload_ctx (db_dl b))] []).
Definition def_ctx (d : def_doc) : ctxt :=
  Ctx [("Metadata.MajorVersion", dd_major d); ("Metadata.MinorVersion", dd_minor d)]
      [("GetAllNodes", map def_node_ctx (dd_nodes d)); ("GetMaterialsByName", map mat_ctx (dd_mats d));
       ("GetSectionsByName", map sec_ctx (dd_secs d)); ("Elements", map def_bar_ctx (dd_bars d))] [].

Definition frame_letter (local : bool) : string := if local then "l" else "g".
Definition spec_def_node (n : def_node) : string := nl ++ dn_id n ++ " -> " ++ dn_px n ++ " " ++ dn_py n ++ " " ++ dn_cons n.
Definition spec_cload (bar : string) (l : def_cload) : string :=
  nl ++ dc_term l ++ " " ++ frame_letter (dc_local l) ++ "c " ++ bar ++ " " ++ dc_t l ++ " " ++ dc_v l.
Definition spec_dload (bar : string) (l : def_dload) : string :=
  nl ++ dd_term l ++ " " ++ frame_letter (dd_local l) ++ "d " ++ bar ++ " " ++ dd_t0 l ++ " " ++ dd_v0 l ++ " " ++ dd_t1 l ++ " " ++ dd_v1 l.
(* the loads of a bar: its concentrated loads, then its distributed loads, each naming the bar's id *)
Definition spec_bar_loads (b : def_bar) : string :=
  String.concat "" (map (spec_cload (db_id b)) (db_cl b)) ++ String.concat "" (map (spec_dload (db_id b)) (db_dl b)).
Definition spec_def_bar (b : def_bar) : string :=
  nl ++ db_id b ++ " -> " ++ db_n1 b ++ " " ++ db_l1 b ++ " " ++ db_n2 b ++ " " ++ db_l2 b ++ " '" ++ db_mat b ++ "' '" ++ db_sec b ++ "'".
Definition spec_definition (d : def_doc) : string :=
  "inkfem v" ++ dd_major d ++ "." ++ dd_minor d ++ nl ++ nl ++
  "|nodes|" ++ String.concat "" (map spec_def_node (dd_nodes d)) ++ nl ++ nl ++
  "|materials|" ++ String.concat "" (map spec_material (dd_mats d)) ++ nl ++ nl ++
  "|sections|" ++ String.concat "" (map spec_section (dd_secs d)) ++ nl ++ nl ++
  "|loads|" ++ String.concat "" (map spec_bar_loads (dd_bars d)) ++ nl ++ nl ++
  "|bars|" ++ String.concat "" (map spec_def_bar (dd_bars d)) ++ nl.

Theorem definition_template_renders_the_documented_layout : forall d, render tmpl_definition (def_ctx d) = spec_definition d.
Proof.
  intros d. unfold render, tmpl_definition, def_ctx, spec_definition. cbn -[String.concat]. rewrite !map_map.
  peel.
  all: try reflexivity.
  all: try (unfold spec_def_node, spec_material, spec_section, spec_def_bar; cbn -[String.concat]; peel; rewrite ?append_nil_r; reflexivity).
  unfold spec_bar_loads. cbn -[String.concat]. rewrite !map_map, append_nil_r. peel.
  - unfold spec_cload, frame_letter. cbn -[String.concat]. destruct (dc_local x0); cbn -[String.concat]; peel; rewrite ?append_nil_r; reflexivity.
  - unfold spec_dload, frame_letter. cbn -[String.concat]. destruct (dd_local x0); cbn -[String.concat]; peel; rewrite ?append_nil_r; reflexivity.
Qed.

(* ================= consequences read off the layout ================= *)

(* the solution text starts with the version header whatever the data *)
Corollary solution_text_starts_with_version d :
  exists rest, render tmpl_solution (sol_ctx d) = "inkfem v" ++ sd_major d ++ "." ++ sd_minor d ++ nl ++ rest.
Proof. rewrite solution_template_renders_the_documented_layout. unfold spec_solution. eexists. reflexivity. Qed.
