(* C17, operationally: the system is built the way the source builds it - a matrix and a vector that start empty, then, bar
   after bar, AddToValue for every stiffness term and an addition for every load term (the steps and their order are
   Gen/GenAssemble.v asm_per_bar, regenerated from setEquationTerms), then (asm_after_bars, from MakeSystemOfEquations) the
   trivial equation for every number below the count whose row is still empty, then, support number after support number,
   SetZeroCol / SetIdentityRow / SetZero.  The matrix and the vector these steps end with are exactly k_final and f_final of
   Model/Assemble.v, entry for entry - so the declarative reading of the model used by all other theorems is what the
   sequence of operations produces. *)
From Coq Require Import ZArith QArith List Bool Arith Lia.
From Inkfem Require Import Num.NumOps Gen.GenAssemble Model.Types Model.Slice Model.Dof Model.Assemble.
Import ListNotations.
Local Open Scope Q_scope.

(* the sparse matrix (values, and which rows hold an entry) and the load vector *)
Record sys := { sm : nat -> nat -> Q; st : nat -> bool; sv : nat -> Q }.
Definition sys0 : sys := {| sm := fun _ _ => 0; st := fun _ => false; sv := fun _ => 0 |}.

(* inkmath: AddToValue, vector addition, SetIdentityRow, SetZeroCol, SetZero *)
Definition add_to (s : sys) (c : nat * nat * Q) : sys :=
  {| sm := fun a b => if Nat.eqb (fst (fst c)) a && Nat.eqb (snd (fst c)) b then sm s a b + snd c else sm s a b;
     st := fun a => Nat.eqb (fst (fst c)) a || st s a; sv := sv s |}.
Definition vec_add (s : sys) (c : nat * Q) : sys :=
  {| sm := sm s; st := st s; sv := fun a => if Nat.eqb (fst c) a then sv s a + snd c else sv s a |}.
Definition identity_row (s : sys) (i : nat) : sys :=
  {| sm := fun a b => if Nat.eqb a i then delta (F:=Q) a b else sm s a b; st := fun a => Nat.eqb a i || st s a; sv := sv s |}.
Definition zero_col (s : sys) (j : nat) : sys :=
  {| sm := fun a b => if Nat.eqb b j then 0 else sm s a b; st := st s; sv := sv s |}.
Definition vec_zero (s : sys) (i : nat) : sys :=
  {| sm := sm s; st := st s; sv := fun a => if Nat.eqb a i then 0 else sv s a |}.
(* addConstraintAtDof *)
Definition constrain (s : sys) (d : nat) : sys := vec_zero (identity_row (zero_col s d) d) d.

(* one bar: the steps of setEquationTerms, in the order the source takes them *)
Definition step_bar (p : pbar Q) (s : sys) (k : asm_step) : sys :=
  match k with
  | AsmBarStiffness => fold_left add_to (bar_contribs p) s
  | AsmBarLoads => fold_left vec_add (bar_fterms p) s
  | _ => s
  end.
Definition do_bar (s : sys) (p : pbar Q) : sys := fold_left (step_bar p) asm_per_bar s.

(* after the bars: the steps of MakeSystemOfEquations, in the order the source takes them *)
Definition trivial_row (s : sys) (i : nat) : sys := if st s i then s else identity_row s i.
Definition step_after (n : nat) (sup : list nat) (s : sys) (k : asm_step) : sys :=
  match k with
  | AsmTrivialRows => fold_left trivial_row (seq 0 n) s
  | AsmSupports => fold_left constrain sup s
  | _ => s
  end.
Definition assemble (n : nat) (bars : list (pbar Q)) (sup : list nat) : sys :=
  fold_left (step_after n sup) asm_after_bars (fold_left do_bar bars sys0).

(* ---- the bars ---- *)
Definition kacc (i j : nat) (acc : Q) (c : nat * nat * Q) : Q :=
  if Nat.eqb (fst (fst c)) i && Nat.eqb (snd (fst c)) j then acc + snd c else acc.
Definition facc (i : nat) (acc : Q) (c : nat * Q) : Q := if Nat.eqb (fst c) i then acc + snd c else acc.

Lemma adds_sm cs : forall s i j, sm (fold_left add_to cs s) i j = fold_left (kacc i j) cs (sm s i j).
Proof. induction cs as [|c cs IH]; intros s i j; [reflexivity|]. cbn [fold_left]. rewrite IH. reflexivity. Qed.
Lemma adds_sv cs : forall s, sv (fold_left add_to cs s) = sv s.
Proof. induction cs as [|c cs IH]; intros s; [reflexivity|]. cbn [fold_left]. rewrite IH. reflexivity. Qed.
Lemma adds_st cs : forall s i, st (fold_left add_to cs s) i = existsb (fun c => Nat.eqb (fst (fst c)) i) cs || st s i.
Proof.
  induction cs as [|c cs IH]; intros s i; [reflexivity|]. cbn [fold_left existsb]. rewrite IH. cbn [st add_to].
  destruct (existsb _ cs), (Nat.eqb (fst (fst c)) i), (st s i); reflexivity.
Qed.
Lemma vadds_sm fs : forall s, sm (fold_left vec_add fs s) = sm s.
Proof. induction fs as [|c fs IH]; intros s; [reflexivity|]. cbn [fold_left]. rewrite IH. reflexivity. Qed.
Lemma vadds_st fs : forall s, st (fold_left vec_add fs s) = st s.
Proof. induction fs as [|c fs IH]; intros s; [reflexivity|]. cbn [fold_left]. rewrite IH. reflexivity. Qed.
Lemma vadds_sv fs : forall s i, sv (fold_left vec_add fs s) i = fold_left (facc i) fs (sv s i).
Proof. induction fs as [|c fs IH]; intros s i; [reflexivity|]. cbn [fold_left]. rewrite IH. reflexivity. Qed.

(* whatever order the source lists the two per-bar steps in, a bar adds its stiffness terms to the matrix and its load terms to
   the vector (the lemma is proved for the generated list) *)
Lemma do_bar_spec s p :
  (forall i j, sm (do_bar s p) i j = fold_left (kacc i j) (bar_contribs p) (sm s i j)) /\
  (forall i, st (do_bar s p) i = existsb (fun c => Nat.eqb (fst (fst c)) i) (bar_contribs p) || st s i) /\
  (forall i, sv (do_bar s p) i = fold_left (facc i) (bar_fterms p) (sv s i)).
Proof.
  unfold do_bar. cbn [asm_per_bar fold_left step_bar].
  repeat split; intros; rewrite ?vadds_sm, ?vadds_st, ?vadds_sv, ?adds_sm, ?adds_st, ?adds_sv; reflexivity.
Qed.

Lemma bars_spec bars : forall s,
  (forall i j, sm (fold_left do_bar bars s) i j = fold_left (kacc i j) (all_contribs bars) (sm s i j)) /\
  (forall i, st (fold_left do_bar bars s) i = existsb (fun c => Nat.eqb (fst (fst c)) i) (all_contribs bars) || st s i) /\
  (forall i, sv (fold_left do_bar bars s) i = fold_left (facc i) (all_fterms bars) (sv s i)).
Proof.
  induction bars as [|p bars IH]; intros s; [repeat split; reflexivity|].
  cbn [fold_left]. destruct (IH (do_bar s p)) as (I1 & I2 & I3). destruct (do_bar_spec s p) as (D1 & D2 & D3).
  unfold all_contribs, all_fterms in *. cbn [flat_map]. repeat split; intros.
  - rewrite I1, fold_left_app, D1. reflexivity.
  - rewrite I2, existsb_app, D2. destruct (existsb _ (bar_contribs p)), (existsb _ (flat_map bar_contribs bars)), (st s i); reflexivity.
  - rewrite I3, fold_left_app, D3. reflexivity.
Qed.

Lemma touched_is_not_empty cs i : existsb (fun c : nat * nat * Q => Nat.eqb (fst (fst c)) i) cs = negb (row_empty cs i).
Proof.
  unfold row_empty. induction cs as [|c cs IH]; [reflexivity|]. cbn [existsb forallb]. rewrite IH.
  destruct (Nat.eqb (fst (fst c)) i), (forallb _ cs); reflexivity.
Qed.

(* ---- the trivial equations ---- *)
Lemma trivial_rows_spec l : forall s,
  (forall i j, sm (fold_left trivial_row l s) i j = if existsb (Nat.eqb i) l && negb (st s i) then delta (F:=Q) i j else sm s i j) /\
  (forall i, sv (fold_left trivial_row l s) i = sv s i).
Proof.
  induction l as [|a l IH]; intros s; [split; intros; reflexivity|].
  cbn [fold_left existsb]. destruct (IH (trivial_row s a)) as (I1 & I2). split; intros.
  - rewrite I1. unfold trivial_row. destruct (st s a) eqn:Ta.
    + destruct (Nat.eqb i a) eqn:E; [apply Nat.eqb_eq in E; subst i; rewrite Ta; cbn; rewrite andb_false_r; reflexivity | reflexivity].
    + cbn [sm st identity_row]. destruct (Nat.eqb i a) eqn:E.
      * apply Nat.eqb_eq in E. subst i. rewrite Ta. cbn. destruct (existsb (Nat.eqb a) l); reflexivity.
      * cbn. reflexivity.
  - rewrite I2. unfold trivial_row. destruct (st s a); reflexivity.
Qed.

(* ---- the supports ---- *)
Lemma supports_spec sup : forall s,
  (forall i j, sm (fold_left constrain sup s) i j = if is_supported sup i || is_supported sup j then delta (F:=Q) i j else sm s i j) /\
  (forall i, sv (fold_left constrain sup s) i = if is_supported sup i then 0 else sv s i).
Proof.
  unfold is_supported. induction sup as [|d sup IH]; intros s; [split; intros; reflexivity|].
  cbn [fold_left existsb]. destruct (IH (constrain s d)) as (I1 & I2). split; intros.
  - rewrite I1. cbn [constrain sm vec_zero identity_row zero_col].
    destruct (existsb (Nat.eqb i) sup), (existsb (Nat.eqb j) sup); rewrite ?orb_true_r; cbn [orb]; try reflexivity.
    destruct (Nat.eqb i d) eqn:Ei; [reflexivity|]. cbn [orb].
    destruct (Nat.eqb j d) eqn:Ej; [| reflexivity].
    apply Nat.eqb_eq in Ej. subst j. unfold delta. rewrite Ei. reflexivity.
  - rewrite I2. cbn [constrain sv vec_zero identity_row zero_col].
    destruct (existsb (Nat.eqb i) sup); rewrite ?orb_true_r; [reflexivity|].
    destruct (Nat.eqb i d); reflexivity.
Qed.

Lemma seq_has n i : existsb (Nat.eqb i) (seq 0 n) = Nat.ltb i n.
Proof.
  destruct (Nat.ltb i n) eqn:L.
  - apply Nat.ltb_lt in L. apply existsb_exists. exists i. split; [apply in_seq; lia | apply Nat.eqb_refl].
  - apply Nat.ltb_ge in L. destruct (existsb (Nat.eqb i) (seq 0 n)) eqn:E; [| reflexivity].
    apply existsb_exists in E. destruct E as (x & Hx & Ex). apply Nat.eqb_eq in Ex. subst x. apply in_seq in Hx. lia.
Qed.

(* THEOREM (C17): the operations of the source, in the order of the source, end with the system of the model *)
Theorem steps_of_the_source_yield_the_system (n : nat) (bars : list (pbar Q)) (sup : list nat) :
  (forall i j, (i < n)%nat -> sm (assemble n bars sup) i j = k_final (all_contribs bars) sup i j) /\
  (forall i, sv (assemble n bars sup) i = f_final (all_fterms bars) sup i).
Proof.
  unfold assemble. cbn [asm_after_bars fold_left step_after].
  set (s1 := fold_left do_bar bars sys0).
  destruct (bars_spec bars sys0) as (B1 & B2 & B3). fold s1 in B1, B2, B3.
  destruct (trivial_rows_spec (seq 0 n) s1) as (T1 & T2).
  destruct (supports_spec sup (fold_left trivial_row (seq 0 n) s1)) as (S1 & S2).
  split.
  - intros i j Hi. rewrite S1. unfold k_final. destruct (is_supported sup i || is_supported sup j); [reflexivity|].
    rewrite T1, seq_has. apply Nat.ltb_lt in Hi. rewrite Hi. cbn [andb].
    rewrite B2, touched_is_not_empty. cbn [st sys0]. rewrite orb_false_r, negb_involutive.
    destruct (row_empty (all_contribs bars) i); [reflexivity|].
    rewrite B1. reflexivity.
  - intros i. rewrite S2. unfold f_final. destruct (is_supported sup i); [reflexivity|].
    rewrite T2, B3. reflexivity.
Qed.
