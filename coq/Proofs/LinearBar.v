(* C06 at the level of a whole bar: for a fixed layout of loads (their kinds, axes and positions) the nodal loads of
   the sliced bar are a LINEAR function of the load values.  Three descriptions of one bar whose loads sit at the same
   places, the values of the third being  a x (values of the first) + (values of the second): the three are cut at the
   same positions and every nodal load of the third is  a x (first) + (second).  Scaling (second = zero loads) and
   superposition of two load sets written on one layout (a = 1) are instances.
   Model/Slice.v + Model/Loads.v over the translated lump_gen. *)
From Coq Require Import ZArith QArith Qabs List Bool Lia Lqa Setoid Morphisms Field Qfield.
From Inkfem Require Import Num.NumOps Gen.GenConsts Gen.GenLoads Model.Types Model.Slice Model.Loads
  Spec.Resultant Proofs.LoadsProofs.
Import ListNotations.
Local Open Scope Q_scope.
Local Infix "=t=" := tor_eq (at level 70, no associativity).

Inductive Forall3 {A B C} (P : A -> B -> C -> Prop) : list A -> list B -> list C -> Prop :=
| F3_nil : Forall3 P [] [] []
| F3_cons x y z l1 l2 l3 : P x y z -> Forall3 P l1 l2 l3 -> Forall3 P (x :: l1) (y :: l2) (z :: l3).

(* a x t1 + t2 *)
Definition tcomb (a : Q) (t1 t2 : tor Q) : tor Q := (a * t_fx t1 + t_fx t2, a * t_fy t1 + t_fy t2, a * t_mz t1 + t_mz t2).

Lemma tcomb_add a x1 x2 y1 y2 : tcomb a (tor_add x1 y1) (tor_add x2 y2) =t= tor_add (tcomb a x1 x2) (tcomb a y1 y2).
Proof. unfold tor_eq, tcomb, tor_add, t_fx, t_fy, t_mz. cbn. repeat split; ring. Qed.
Lemma tcomb_0 a : tcomb a tor0 tor0 =t= tor0.
Proof. unfold tor_eq, tcomb, tor0, t_fx, t_fy, t_mz. cbn. repeat split; ring. Qed.
Lemma tcomb_proper a x1 x2 y1 y2 : x1 =t= y1 -> x2 =t= y2 -> tcomb a x1 x2 =t= tcomb a y1 y2.
Proof. intros (A1 & A2 & A3) (B1 & B2 & B3). unfold tor_eq, tcomb, t_fx, t_fy, t_mz in *. cbn in *. rewrite A1, A2, A3, B1, B2, B3. repeat split; reflexivity. Qed.

(* loads at the same place, third value = a x first + second *)
Definition cl_lin (a : Q) (l1 l2 l3 : cload Q) : Prop :=
  cl_term l2 = cl_term l1 /\ cl_term l3 = cl_term l1 /\ cl_local l2 = cl_local l1 /\ cl_local l3 = cl_local l1 /\
  cl_t l2 = cl_t l1 /\ cl_t l3 = cl_t l1 /\ cl_v l3 == a * cl_v l1 + cl_v l2.
Definition dl_lin (a : Q) (l1 l2 l3 : dload Q) : Prop :=
  dl_term l2 = dl_term l1 /\ dl_term l3 = dl_term l1 /\ dl_local l2 = dl_local l1 /\ dl_local l3 = dl_local l1 /\
  dl_t0 l2 = dl_t0 l1 /\ dl_t0 l3 = dl_t0 l1 /\ dl_t1 l2 = dl_t1 l1 /\ dl_t1 l3 = dl_t1 l1 /\
  dl_v0 l3 == a * dl_v0 l1 + dl_v0 l2 /\ dl_v1 l3 == a * dl_v1 l1 + dl_v1 l2.

(* ---- same slicing ---- *)
Lemma cpos_lin a cl1 cl2 cl3 : Forall3 (cl_lin a) cl1 cl2 cl3 -> cpos cl2 = cpos cl1 /\ cpos cl3 = cpos cl1.
Proof.
  unfold cpos. induction 1 as [|l1 l2 l3 c1 c2 c3 (_ & _ & _ & _ & T2 & T3 & _) _ (IH2 & IH3)]; [split; reflexivity|].
  cbn [filter]. rewrite T2, T3. destruct (negb (is_extreme (cl_t l1))); cbn [map]; rewrite IH2, IH3, ?T2, ?T3; split; reflexivity.
Qed.
Lemma dpos_lin a dl1 dl2 dl3 : Forall3 (dl_lin a) dl1 dl2 dl3 -> dpos dl2 = dpos dl1 /\ dpos dl3 = dpos dl1.
Proof.
  unfold dpos. induction 1 as [|l1 l2 l3 d1 d2 d3 (_ & _ & _ & _ & A2 & A3 & B2 & B3 & _) _ (IH2 & IH3)]; [split; reflexivity|].
  cbn [flat_map]. rewrite A2, A3, B2, B3, IH2, IH3. split; reflexivity.
Qed.

(* ---- loads combine ---- *)
Lemma term_tor_lin a tm v1 v2 v3 : v3 == a * v1 + v2 -> term_tor tm v3 =t= tcomb a (term_tor tm v1) (term_tor tm v2).
Proof. intros H. destruct tm; unfold tor_eq, tcomb, term_tor, t_fx, t_fy, t_mz; cbn; repeat split; try ring; exact H. Qed.
Lemma to_local_lin a c s t1 t2 : to_local c s (tcomb a t1 t2) =t= tcomb a (to_local c s t1) (to_local c s t2).
Proof. unfold tor_eq, tcomb, to_local, t_fx, t_fy, t_mz. cbn. repeat split; ring. Qed.
#[export] Instance to_local_proper'' c s : Proper (tor_eq ==> tor_eq) (to_local (F:=Q) c s).
Proof. intros x y (H1 & H2 & H3). unfold tor_eq, to_local, t_fx, t_fy, t_mz in *. cbn in *. rewrite H1, H2, H3. repeat split; reflexivity. Qed.

Lemma cl_local_tor_lin a c s l1 l2 l3 : cl_lin a l1 l2 l3 ->
  cl_local_tor c s l3 =t= tcomb a (cl_local_tor c s l1) (cl_local_tor c s l2).
Proof.
  intros (T2 & T3 & L2 & L3 & _ & _ & Hv). unfold cl_local_tor. rewrite T2, T3, L2, L3.
  assert (E : term_tor (cl_term l1) (cl_v l3) =t= tcomb a (term_tor (cl_term l1) (cl_v l1)) (term_tor (cl_term l1) (cl_v l2)))
    by (apply term_tor_lin; exact Hv).
  destruct (cl_local l1); [exact E|]. rewrite E. apply to_local_lin.
Qed.

Lemma ext_fold_lin a c s t : forall cl1 cl2 cl3, Forall3 (cl_lin a) cl1 cl2 cl3 -> forall a1 a2 a3, a3 =t= tcomb a a1 a2 ->
  fold_left (fun ac l => if teq t (cl_t l) then tor_add ac (cl_local_tor c s l) else ac) cl3 a3
  =t= tcomb a (fold_left (fun ac l => if teq t (cl_t l) then tor_add ac (cl_local_tor c s l) else ac) cl1 a1)
              (fold_left (fun ac l => if teq t (cl_t l) then tor_add ac (cl_local_tor c s l) else ac) cl2 a2).
Proof.
  induction 1 as [|l1 l2 l3 c1 c2 c3 Hl _ IH]; intros a1 a2 a3 H; [exact H|]. cbn [fold_left]. apply IH.
  pose proof Hl as (_ & _ & _ & _ & P2 & P3 & _). rewrite P2, P3. destruct (teq t (cl_t l1)); [| exact H].
  etransitivity; [| symmetry; apply tcomb_add]. apply tor_add_proper; [exact H | apply cl_local_tor_lin; exact Hl].
Qed.

Lemma dl_value_at_lin a l1 l2 l3 t : dl_lin a l1 l2 l3 -> dl_value_at l3 t == a * dl_value_at l1 t + dl_value_at l2 t.
Proof.
  intros (_ & _ & _ & _ & A2 & A3 & B2 & B3 & V0 & V1). unfold dl_value_at. rewrite A2, A3, B2, B3.
  destruct ((nltb t (dl_t0 l1) && negb (teq t (dl_t0 l1))) || (nltb (dl_t1 l1) t && negb (teq t (dl_t1 l1)))).
  - cbn [n0 QOps]. ring.
  - cbn [nadd nsub nmul ndiv QOps]. rewrite V0, V1. unfold Qdiv. ring.
Qed.

Lemma dl_tor_at_lin a c s l1 l2 l3 t : dl_lin a l1 l2 l3 ->
  dl_tor_at c s l3 t =t= tcomb a (dl_tor_at c s l1 t) (dl_tor_at c s l2 t).
Proof.
  intros H. pose proof (dl_value_at_lin a l1 l2 l3 t H) as Hv. destruct H as (T2 & T3 & L2 & L3 & _).
  unfold dl_tor_at. rewrite T2, T3, L2, L3.
  assert (E : term_tor (dl_term l1) (dl_value_at l3 t) =t= tcomb a (term_tor (dl_term l1) (dl_value_at l1 t)) (term_tor (dl_term l1) (dl_value_at l2 t)))
    by (apply term_tor_lin; exact Hv).
  destruct (dl_local l1); [exact E|]. rewrite E. apply to_local_lin.
Qed.

(* the translated kernel is linear in the six intensities (any length, zero included) *)
Lemma lump_gen_lin a s1 s2 s3 e1 e2 e3 p1 p2 p3 q1 q2 q3 r1 r2 r3 u1 u2 u3 len :
  r1 == a * s1 + p1 -> r2 == a * s2 + p2 -> r3 == a * s3 + p3 -> u1 == a * e1 + q1 -> u2 == a * e2 + q2 -> u3 == a * e3 + q3 ->
  fst (lump_gen (O:=QOps) r1 r2 r3 u1 u2 u3 len) =t= tcomb a (fst (lump_gen (O:=QOps) s1 s2 s3 e1 e2 e3 len)) (fst (lump_gen (O:=QOps) p1 p2 p3 q1 q2 q3 len)) /\
  snd (lump_gen (O:=QOps) r1 r2 r3 u1 u2 u3 len) =t= tcomb a (snd (lump_gen (O:=QOps) s1 s2 s3 e1 e2 e3 len)) (snd (lump_gen (O:=QOps) p1 p2 p3 q1 q2 q3 len)).
Proof.
  intros H1 H2 H3 H4 H5 H6. unfold lump_gen, tor_eq, tcomb, t_fx, t_fy, t_mz. cbn.
  rewrite H1, H2, H3, H4, H5, H6. unfold Qdiv. repeat split; ring.
Qed.

(* ---- three descriptions of one bar on one layout of loads ---- *)
Record bar_lin (a : Q) (b1 b2 b3 : bar Q) : Prop := {
  bl_l1 : b_l1 b2 = b_l1 b1 /\ b_l1 b3 = b_l1 b1; bl_l2 : b_l2 b2 = b_l2 b1 /\ b_l2 b3 = b_l2 b1;
  bl_c : b_c b2 = b_c b1 /\ b_c b3 = b_c b1; bl_s : b_s b2 = b_s b1 /\ b_s b3 = b_s b1;
  bl_x1 : b_x1 b2 = b_x1 b1 /\ b_x1 b3 = b_x1 b1; bl_y1 : b_y1 b2 = b_y1 b1 /\ b_y1 b3 = b_y1 b1;
  bl_x2 : b_x2 b2 = b_x2 b1 /\ b_x2 b3 = b_x2 b1; bl_y2 : b_y2 b2 = b_y2 b1 /\ b_y2 b3 = b_y2 b1;
  bl_cl : Forall3 (cl_lin a) (b_cl b1) (b_cl b2) (b_cl b3);
  bl_dl : Forall3 (dl_lin a) (b_dl b1) (b_dl b2) (b_dl b3) }.

Section Lin.
Variable a : Q.
Variables b1 b2 b3 : bar Q.
Hypothesis R : bar_lin a b1 b2 b3.

Lemma point_at_lin t : point_at b2 t = point_at b1 t /\ point_at b3 t = point_at b1 t.
Proof.
  unfold point_at. destruct (bl_x1 _ _ _ _ R) as (X12 & X13). destruct (bl_y1 _ _ _ _ R) as (Y12 & Y13).
  destruct (bl_x2 _ _ _ _ R) as (X22 & X23). destruct (bl_y2 _ _ _ _ R) as (Y22 & Y23).
  rewrite X12, X13, Y12, Y13, X22, X23, Y22, Y23. split; reflexivity.
Qed.
Lemma slice_len_lin ta tb : Loads.slice_len b2 ta tb = Loads.slice_len b1 ta tb /\ Loads.slice_len b3 ta tb = Loads.slice_len b1 ta tb.
Proof.
  unfold Loads.slice_len. destruct (point_at_lin ta) as (A2 & A3). destruct (point_at_lin tb) as (B2 & B3).
  destruct (bl_c _ _ _ _ R) as (C2 & C3). destruct (bl_s _ _ _ _ R) as (S2 & S3).
  rewrite A2, A3, B2, B3, C2, C3, S2, S3. split; reflexivity.
Qed.

Lemma in_span_lin l1 l2 l3 ta tb : dl_lin a l1 l2 l3 -> in_span l2 ta tb = in_span l1 ta tb /\ in_span l3 ta tb = in_span l1 ta tb.
Proof. intros (_ & _ & _ & _ & A2 & A3 & B2 & B3 & _). unfold in_span. rewrite A2, A3, B2, B3. split; reflexivity. Qed.

Lemma dl_lump_lin l1 l2 l3 ta tb : dl_lin a l1 l2 l3 ->
  fst (dl_lump b3 l3 ta tb) =t= tcomb a (fst (dl_lump b1 l1 ta tb)) (fst (dl_lump b2 l2 ta tb)) /\
  snd (dl_lump b3 l3 ta tb) =t= tcomb a (snd (dl_lump b1 l1 ta tb)) (snd (dl_lump b2 l2 ta tb)).
Proof.
  intros Hl. unfold dl_lump. destruct (in_span_lin l1 l2 l3 ta tb Hl) as (I2 & I3). rewrite I2, I3.
  destruct (in_span l1 ta tb).
  - cbv zeta. destruct (slice_len_lin ta tb) as (Z2 & Z3). rewrite Z2, Z3.
    destruct (bl_c _ _ _ _ R) as (C2 & C3). destruct (bl_s _ _ _ _ R) as (S2 & S3). rewrite C2, C3, S2, S3.
    destruct (dl_tor_at_lin a (b_c b1) (b_s b1) l1 l2 l3 ta Hl) as (A1 & A2 & A3).
    destruct (dl_tor_at_lin a (b_c b1) (b_s b1) l1 l2 l3 tb Hl) as (B1 & B2 & B3).
    unfold tcomb, t_fx, t_fy, t_mz in A1, A2, A3, B1, B2, B3. cbn [fst snd] in A1, A2, A3, B1, B2, B3.
    apply lump_gen_lin; assumption.
  - cbn [fst snd]. split; symmetry; apply tcomb_0.
Qed.

Lemma slice_lumps_lin ta tb : forall d1 d2 d3, Forall3 (dl_lin a) d1 d2 d3 ->
  fst (slice_lumps b3 d3 ta tb) =t= tcomb a (fst (slice_lumps b1 d1 ta tb)) (fst (slice_lumps b2 d2 ta tb)) /\
  snd (slice_lumps b3 d3 ta tb) =t= tcomb a (snd (slice_lumps b1 d1 ta tb)) (snd (slice_lumps b2 d2 ta tb)).
Proof.
  unfold slice_lumps.
  assert (G : forall d1 d2 d3, Forall3 (dl_lin a) d1 d2 d3 -> forall c1 c2 c3,
    fst c3 =t= tcomb a (fst c1) (fst c2) -> snd c3 =t= tcomb a (snd c1) (snd c2) ->
    let r3 := fold_left (fun ac l => let p := dl_lump b3 l ta tb in (tor_add (fst ac) (fst p), tor_add (snd ac) (snd p))) d3 c3 in
    let r1 := fold_left (fun ac l => let p := dl_lump b1 l ta tb in (tor_add (fst ac) (fst p), tor_add (snd ac) (snd p))) d1 c1 in
    let r2 := fold_left (fun ac l => let p := dl_lump b2 l ta tb in (tor_add (fst ac) (fst p), tor_add (snd ac) (snd p))) d2 c2 in
    fst r3 =t= tcomb a (fst r1) (fst r2) /\ snd r3 =t= tcomb a (snd r1) (snd r2)).
  { induction 1 as [|l1 l2 l3 d1 d2 d3 Hl _ IH]; intros c1 c2 c3 H1 H2; [split; assumption|]. cbn [fold_left].
    apply IH; cbn [fst snd]; destruct (dl_lump_lin l1 l2 l3 ta tb Hl) as (L1 & L2).
    - etransitivity; [| symmetry; apply tcomb_add]. apply tor_add_proper; [exact H1 | exact L1].
    - etransitivity; [| symmetry; apply tcomb_add]. apply tor_add_proper; [exact H2 | exact L2]. }
  intros d1 d2 d3 Hd. apply G; [exact Hd | |]; cbn [fst snd]; symmetry; apply tcomb_0.
Qed.

(* slice nodes: same place, loads combined *)
Definition node_lin (n1 n2 n3 : pnode Q) : Prop :=
  pn_t n2 = pn_t n1 /\ pn_t n3 = pn_t n1 /\ pn_x n3 = pn_x n1 /\ pn_y n3 = pn_y n1 /\
  pn_ext n3 =t= tcomb a (pn_ext n1) (pn_ext n2) /\ pn_left n3 =t= tcomb a (pn_left n1) (pn_left n2) /\
  pn_right n3 =t= tcomb a (pn_right n1) (pn_right n2).

Lemma add_left_lin n1 n2 n3 t1 t2 t3 : node_lin n1 n2 n3 -> t3 =t= tcomb a t1 t2 -> node_lin (add_left n1 t1) (add_left n2 t2) (add_left n3 t3).
Proof.
  intros (H1 & H2 & H3 & H4 & H5 & H6 & H7) Ht. unfold node_lin, add_left. cbn [pn_t pn_x pn_y pn_ext pn_left pn_right].
  split; [exact H1|]. split; [exact H2|]. split; [exact H3|]. split; [exact H4|]. split; [exact H5|]. split; [| exact H7].
  etransitivity; [| symmetry; apply tcomb_add]. apply tor_add_proper; assumption.
Qed.
Lemma add_right_lin n1 n2 n3 t1 t2 t3 : node_lin n1 n2 n3 -> t3 =t= tcomb a t1 t2 -> node_lin (add_right n1 t1) (add_right n2 t2) (add_right n3 t3).
Proof.
  intros (H1 & H2 & H3 & H4 & H5 & H6 & H7) Ht. unfold node_lin, add_right. cbn [pn_t pn_x pn_y pn_ext pn_left pn_right].
  split; [exact H1|]. split; [exact H2|]. split; [exact H3|]. split; [exact H4|]. split; [exact H5|]. split; [exact H6|].
  etransitivity; [| symmetry; apply tcomb_add]. apply tor_add_proper; assumption.
Qed.

Lemma apply_dist_from_lin d1 d2 d3 : Forall3 (dl_lin a) d1 d2 d3 ->
  forall r1 r2 r3 n1 n2 n3, node_lin n1 n2 n3 -> Forall3 node_lin r1 r2 r3 ->
  Forall3 node_lin (apply_dist_from b1 d1 n1 r1) (apply_dist_from b2 d2 n2 r2) (apply_dist_from b3 d3 n3 r3).
Proof.
  intros Hd. induction r1 as [|c1 r1 IH]; intros r2 r3 n1 n2 n3 Hn Hr; inversion Hr as [|? c2 c3 ? r2' r3' Hc Hr']; subst; cbn [apply_dist_from].
  - constructor; [exact Hn | constructor].
  - pose proof Hn as (T2 & T3 & _). pose proof Hc as (U2 & U3 & _).
    rewrite T2, T3, U2, U3.
    destruct (slice_lumps_lin (pn_t n1) (pn_t c1) d1 d2 d3 Hd) as (L1 & L2).
    constructor.
    + apply add_left_lin; [exact Hn | exact L1].
    + apply IH; [apply add_right_lin; [exact Hc | exact L2] | exact Hr'].
Qed.

Lemma mk_node_lin t e1 e2 e3 : e3 =t= tcomb a e1 e2 -> node_lin (mk_node b1 t e1) (mk_node b2 t e2) (mk_node b3 t e3).
Proof.
  intros H. unfold node_lin, mk_node. cbn [pn_t pn_x pn_y pn_ext pn_left pn_right].
  destruct (point_at_lin t) as (P2 & P3). rewrite P3.
  split; [reflexivity|]. split; [reflexivity|]. split; [reflexivity|]. split; [reflexivity|]. split; [exact H|]. split; symmetry; apply tcomb_0.
Qed.

Lemma ext_at_lin t : ext_at b3 t =t= tcomb a (ext_at b1 t) (ext_at b2 t).
Proof.
  unfold ext_at. destruct (bl_c _ _ _ _ R) as (C2 & C3). destruct (bl_s _ _ _ _ R) as (S2 & S3). rewrite C2, C3, S2, S3.
  apply ext_fold_lin; [exact (bl_cl _ _ _ _ R) | symmetry; apply tcomb_0].
Qed.

Lemma axial_end_load_lin s : axial_end_load b3 s =t= tcomb a (axial_end_load b1 s) (axial_end_load b2 s).
Proof.
  unfold axial_end_load. destruct (bl_c _ _ _ _ R) as (C2 & C3). destruct (bl_s _ _ _ _ R) as (S2 & S3). rewrite C2, C3, S2, S3.
  set (step := fun (ac : tor Q) (l : cload Q) => let t := cl_local_tor (b_c b1) (b_s b1) l in
                 let hit := if s then is_min (cl_t l) else negb (is_min (cl_t l)) && is_max (cl_t l) in
                 if hit then ((t_fx ac + t_fx t)%num, (t_fy ac + t_fy t)%num, n0) else ac).
  assert (G : forall c1 c2 c3, Forall3 (cl_lin a) c1 c2 c3 -> forall a1 a2 a3, a3 =t= tcomb a a1 a2 ->
     fold_left step c3 a3 =t= tcomb a (fold_left step c1 a1) (fold_left step c2 a2)).
  { induction 1 as [|l1 l2 l3 c1 c2 c3 Hl _ IH]; intros a1 a2 a3 H; [exact H|]. cbn [fold_left]. apply IH. unfold step. cbv zeta.
    pose proof (cl_local_tor_lin a (b_c b1) (b_s b1) l1 l2 l3 Hl) as (C1 & C2' & _).
    destruct Hl as (_ & _ & _ & _ & P2 & P3 & _). rewrite P2, P3.
    destruct (if s then is_min (cl_t l1) else negb (is_min (cl_t l1)) && is_max (cl_t l1)); [| exact H].
    destruct H as (H1 & H2 & _).
    unfold tor_eq, tcomb, t_fx, t_fy, t_mz in *. cbn [fst snd nadd n0 QOps] in *. rewrite C1, C2', H1, H2. repeat split; ring. }
  apply G; [exact (bl_cl _ _ _ _ R) | symmetry; apply tcomb_0].
Qed.

Lemma is_axial_lin : is_axial b2 = is_axial b1 /\ is_axial b3 = is_axial b1.
Proof.
  unfold is_axial. destruct (bl_l1 _ _ _ _ R) as (A2 & A3). destruct (bl_l2 _ _ _ _ R) as (B2 & B3). rewrite A2, A3, B2, B3.
  pose proof (bl_dl _ _ _ _ R) as Hd. pose proof (bl_cl _ _ _ _ R) as Hc.
  assert (E : forallb (fun l => cl_nodal l && negb (term_eqb (cl_term l) MZ)) (b_cl b2) = forallb (fun l => cl_nodal l && negb (term_eqb (cl_term l) MZ)) (b_cl b1) /\
              forallb (fun l => cl_nodal l && negb (term_eqb (cl_term l) MZ)) (b_cl b3) = forallb (fun l => cl_nodal l && negb (term_eqb (cl_term l) MZ)) (b_cl b1)).
  { induction Hc as [|l1 l2 l3 c1 c2 c3 (T2 & T3 & _ & _ & P2 & P3 & _) _ (IH2 & IH3)]; [split; reflexivity|].
    cbn [forallb]. rewrite IH2, IH3. unfold cl_nodal. rewrite T2, T3, P2, P3. split; reflexivity. }
  destruct E as (E2 & E3). destruct Hd; [| split; reflexivity]. rewrite E2, E3. split; reflexivity.
Qed.
Lemma has_loads_lin : has_loads b2 = has_loads b1 /\ has_loads b3 = has_loads b1.
Proof.
  unfold has_loads. pose proof (bl_dl _ _ _ _ R) as Hd. pose proof (bl_cl _ _ _ _ R) as Hc.
  destruct Hc, Hd; split; reflexivity.
Qed.

Lemma positions_lin n : slice_positions (b_cl b2) (b_dl b2) n = slice_positions (b_cl b1) (b_dl b1) n /\
                        slice_positions (b_cl b3) (b_dl b3) n = slice_positions (b_cl b1) (b_dl b1) n.
Proof.
  unfold slice_positions, required_positions.
  destruct (cpos_lin a _ _ _ (bl_cl _ _ _ _ R)) as (C2 & C3). destruct (dpos_lin a _ _ _ (bl_dl _ _ _ _ R)) as (D2 & D3).
  rewrite C2, C3, D2, D3. split; reflexivity.
Qed.

Lemma Forall3_map {T} (P : pnode Q -> pnode Q -> pnode Q -> Prop) (f1 f2 f3 : T -> pnode Q) (l : list T) :
  (forall t, P (f1 t) (f2 t) (f3 t)) -> Forall3 P (map f1 l) (map f2 l) (map f3 l).
Proof. intros H. induction l; cbn [map]; constructor; auto. Qed.

(* THEOREM: the nodal loads of the sliced bar are linear in the load values *)
Theorem slice_bar_linear : Forall3 node_lin (slice_bar b1) (slice_bar b2) (slice_bar b3).
Proof.
  unfold slice_bar. destruct is_axial_lin as (A2 & A3). destruct has_loads_lin as (H2 & H3). rewrite A2, A3, H2, H3.
  destruct (is_axial b1).
  - destruct (has_loads b1).
    + constructor; [apply mk_node_lin, axial_end_load_lin | constructor; [apply mk_node_lin, axial_end_load_lin | constructor]].
    + constructor; [apply mk_node_lin; symmetry; apply tcomb_0 | constructor; [apply mk_node_lin; symmetry; apply tcomb_0 | constructor]].
  - destruct (has_loads b1).
    + destruct (positions_lin c_slices_loaded) as (P2 & P3). rewrite P2, P3.
      unfold apply_dist.
      destruct (slice_positions (b_cl b1) (b_dl b1) c_slices_loaded) as [|t ts]; [constructor|].
      cbn [map]. apply apply_dist_from_lin; [exact (bl_dl _ _ _ _ R) | apply mk_node_lin, ext_at_lin |].
      apply Forall3_map. intros t'. apply mk_node_lin, ext_at_lin.
    + apply Forall3_map. intros t. apply mk_node_lin. symmetry. apply tcomb_0.
Qed.

End Lin.

(* ---- the combination written out ---- *)
Definition comb_cl (a : Q) (l1 l2 : cload Q) : cload Q :=
  {| cl_term := cl_term l1; cl_local := cl_local l1; cl_t := cl_t l1; cl_v := a * cl_v l1 + cl_v l2 |}.
Definition comb_dl (a : Q) (l1 l2 : dload Q) : dload Q :=
  {| dl_term := dl_term l1; dl_local := dl_local l1; dl_t0 := dl_t0 l1; dl_v0 := a * dl_v0 l1 + dl_v0 l2;
     dl_t1 := dl_t1 l1; dl_v1 := a * dl_v1 l1 + dl_v1 l2 |}.
Fixpoint zip_with {A} (f : A -> A -> A) (l1 l2 : list A) : list A :=
  match l1, l2 with x :: r1, y :: r2 => f x y :: zip_with f r1 r2 | _, _ => [] end.
(* the bar with the loads of b1 (values only) replaced by  a x b1 + b2 *)
Definition comb_bar (a : Q) (b1 b2 : bar Q) : bar Q :=
  {| b_n1 := b_n1 b1; b_n2 := b_n2 b1; b_l1 := b_l1 b1; b_l2 := b_l2 b1;
     b_x1 := b_x1 b1; b_y1 := b_y1 b1; b_x2 := b_x2 b1; b_y2 := b_y2 b1; b_L := b_L b1; b_c := b_c b1; b_s := b_s b1;
     b_E := b_E b1; b_A := b_A b1; b_I := b_I b1; b_S := b_S b1; b_rho := b_rho b1;
     b_cl := zip_with (comb_cl a) (b_cl b1) (b_cl b2); b_dl := zip_with (comb_dl a) (b_dl b1) (b_dl b2) |}.

(* same bar, same layout of loads (kinds, axes, positions): a decidable check *)
Definition same_cl (l1 l2 : cload Q) : Prop := cl_term l2 = cl_term l1 /\ cl_local l2 = cl_local l1 /\ cl_t l2 = cl_t l1.
Definition same_dl (l1 l2 : dload Q) : Prop := dl_term l2 = dl_term l1 /\ dl_local l2 = dl_local l1 /\ dl_t0 l2 = dl_t0 l1 /\ dl_t1 l2 = dl_t1 l1.
Record same_layout (b1 b2 : bar Q) : Prop := {
  sl_l1 : b_l1 b2 = b_l1 b1; sl_l2 : b_l2 b2 = b_l2 b1; sl_c : b_c b2 = b_c b1; sl_s : b_s b2 = b_s b1;
  sl_x1 : b_x1 b2 = b_x1 b1; sl_y1 : b_y1 b2 = b_y1 b1; sl_x2 : b_x2 b2 = b_x2 b1; sl_y2 : b_y2 b2 = b_y2 b1;
  sl_cl : Forall2 same_cl (b_cl b1) (b_cl b2); sl_dl : Forall2 same_dl (b_dl b1) (b_dl b2) }.

Lemma comb_bar_lin a b1 b2 : same_layout b1 b2 -> bar_lin a b1 b2 (comb_bar a b1 b2).
Proof.
  intros S. constructor; cbn [comb_bar b_l1 b_l2 b_c b_s b_x1 b_y1 b_x2 b_y2 b_cl b_dl]; try (split; [apply S | reflexivity]).
  - pose proof (sl_cl _ _ S) as H. induction H as [|l1 l2 c1 c2 (T & L & P) _ IH]; cbn [zip_with]; constructor; [| exact IH].
    unfold cl_lin, comb_cl. cbn [cl_term cl_local cl_t cl_v]. repeat split; try assumption; reflexivity.
  - pose proof (sl_dl _ _ S) as H. induction H as [|l1 l2 d1 d2 (T & L & P0 & P1) _ IH]; cbn [zip_with]; constructor; [| exact IH].
    unfold dl_lin, comb_dl. cbn [dl_term dl_local dl_t0 dl_t1 dl_v0 dl_v1]. repeat split; try assumption; reflexivity.
Qed.

(* THEOREM (C06, whole bar): on one layout of loads, the bar loaded with  a x (first values) + (second values)  is cut where
   the other two are and carries  a x (first nodal loads) + (second nodal loads)  at every node *)
Theorem nodal_loads_linear_in_the_load_values (a : Q) (b1 b2 : bar Q) : same_layout b1 b2 ->
  Forall3 (fun n1 n2 n3 => pn_t n2 = pn_t n1 /\ pn_t n3 = pn_t n1 /\ pn_x n3 = pn_x n1 /\ pn_y n3 = pn_y n1 /\
                           pn_ext n3 =t= tcomb a (pn_ext n1) (pn_ext n2) /\ pn_left n3 =t= tcomb a (pn_left n1) (pn_left n2) /\
                           pn_right n3 =t= tcomb a (pn_right n1) (pn_right n2))
          (slice_bar b1) (slice_bar b2) (slice_bar (comb_bar a b1 b2)).
Proof. intros S. exact (slice_bar_linear a b1 b2 (comb_bar a b1 b2) (comb_bar_lin a b1 b2 S)). Qed.
