(* Proofs of the C17 statements (Properties/C17.v): the assembled system is the superposition
   of the bar contributions.  Everything is at the Q instance; equalities are Qeq. *)
From Coq Require Import ZArith QArith Qabs List Bool Arith Sorted Permutation Lia Lqa Field Setoid Morphisms.
From Inkfem Require Import Num.NumOps Gen.GenStiffness Model.Types Model.Slice Model.Dof Model.Assemble
  Spec.Superposition.
Import ListNotations.
Local Open Scope Q_scope.

(* ---------- qsum ---------- *)

Lemma qsum_ext_in : forall (A : Type) (f g : A -> Q) l,
  (forall x, In x l -> f x == g x) -> qsum (map f l) == qsum (map g l).
Proof.
  intros A f g l. induction l as [|a l IH]; intros H; simpl.
  - reflexivity.
  - rewrite (H a (or_introl eq_refl)). rewrite IH; [reflexivity|].
    intros x Hx. apply H. right. exact Hx.
Qed.

Lemma qsum_ext : forall (A : Type) (f g : A -> Q) l,
  (forall x, f x == g x) -> qsum (map f l) == qsum (map g l).
Proof. intros. apply qsum_ext_in. auto. Qed.

Lemma qsum_map_zero : forall (A : Type) (l : list A), qsum (map (fun _ => 0) l) == 0.
Proof. induction l; simpl; [reflexivity|]. rewrite IHl. ring. Qed.

Lemma qsum_map_plus : forall (A : Type) (f g : A -> Q) l,
  qsum (map (fun x => f x + g x) l) == qsum (map f l) + qsum (map g l).
Proof. induction l; simpl; [ring|]. rewrite IHl. ring. Qed.

Lemma qsum_swap : forall (A B : Type) (f : A -> B -> Q) l1 l2,
  qsum (map (fun p => qsum (map (fun q => f p q) l2)) l1) ==
  qsum (map (fun q => qsum (map (fun p => f p q) l1)) l2).
Proof.
  intros A B f l1 l2. induction l1 as [|a l1 IH]; simpl.
  - rewrite qsum_map_zero. reflexivity.
  - rewrite IH.
    rewrite (qsum_map_plus B (fun q => f a q) (fun q => qsum (map (fun p => f p q) l1)) l2).
    reflexivity.
Qed.

Lemma qsum_perm : forall l l', Permutation l l' -> qsum l == qsum l'.
Proof.
  induction 1; simpl.
  - reflexivity.
  - rewrite IHPermutation. reflexivity.
  - ring.
  - rewrite IHPermutation1. exact IHPermutation2.
Qed.

(* ---------- kraw_at ---------- *)

Definition kcond (i j : nat) (c : nat * nat * Q) : bool :=
  Nat.eqb (fst (fst c)) i && Nat.eqb (snd (fst c)) j.
Definition kstep (i j : nat) (acc : Q) (c : nat * nat * Q) : Q :=
  if kcond i j c then acc + snd c else acc.

Lemma kraw_at_unfold : forall cs i j, kraw_at cs i j = fold_left (kstep i j) cs 0.
Proof. reflexivity. Qed.

Lemma kfold_acc : forall cs i j a,
  fold_left (kstep i j) cs a == a + fold_left (kstep i j) cs 0.
Proof.
  induction cs as [|c cs IH]; intros i j a; simpl.
  - ring.
  - rewrite (IH i j (kstep i j a c)). rewrite (IH i j (kstep i j 0 c)).
    unfold kstep. destruct (kcond i j c); ring.
Qed.

Lemma kraw_at_nil : forall i j, kraw_at (@nil (nat * nat * Q)) i j == 0.
Proof. reflexivity. Qed.

Lemma kraw_at_cons : forall c cs i j,
  kraw_at (c :: cs) i j == (if kcond i j c then snd c else 0) + kraw_at cs i j.
Proof.
  intros. rewrite !kraw_at_unfold. simpl. rewrite kfold_acc.
  unfold kstep. destruct (kcond i j c); ring.
Qed.

Lemma kraw_at_app : forall l1 l2 i j,
  kraw_at (l1 ++ l2) i j == kraw_at l1 i j + kraw_at l2 i j.
Proof.
  induction l1 as [|c l1 IH]; intros.
  - simpl. rewrite kraw_at_nil. ring.
  - simpl. rewrite !kraw_at_cons. rewrite IH. ring.
Qed.

Lemma kraw_flat_map : forall (A : Type) (f : A -> list (nat * nat * Q)) l i j,
  kraw_at (flat_map f l) i j == qsum (map (fun x => kraw_at (f x) i j) l).
Proof.
  induction l as [|a l IH]; intros; simpl.
  - reflexivity.
  - rewrite kraw_at_app. rewrite IH. reflexivity.
Qed.

(* ---------- fraw_at ---------- *)

Definition fstep (i : nat) (acc : Q) (c : nat * Q) : Q :=
  if Nat.eqb (fst c) i then acc + snd c else acc.

Lemma fraw_at_unfold : forall fs i, fraw_at fs i = fold_left (fstep i) fs 0.
Proof. reflexivity. Qed.

Lemma ffold_acc : forall fs i a, fold_left (fstep i) fs a == a + fold_left (fstep i) fs 0.
Proof.
  induction fs as [|c fs IH]; intros i a; simpl.
  - ring.
  - rewrite (IH i (fstep i a c)). rewrite (IH i (fstep i 0 c)).
    unfold fstep. destruct (Nat.eqb (fst c) i); ring.
Qed.

Lemma fraw_at_nil : forall i, fraw_at (@nil (nat * Q)) i == 0.
Proof. reflexivity. Qed.

Lemma fraw_at_cons : forall c fs i,
  fraw_at (c :: fs) i == (if Nat.eqb (fst c) i then snd c else 0) + fraw_at fs i.
Proof.
  intros. rewrite !fraw_at_unfold. simpl. rewrite ffold_acc.
  unfold fstep. destruct (Nat.eqb (fst c) i); ring.
Qed.

Lemma fraw_at_app : forall l1 l2 i, fraw_at (l1 ++ l2) i == fraw_at l1 i + fraw_at l2 i.
Proof.
  induction l1 as [|c l1 IH]; intros.
  - simpl. rewrite fraw_at_nil. ring.
  - simpl. rewrite !fraw_at_cons. rewrite IH. ring.
Qed.

Lemma fraw_flat_map : forall (A : Type) (f : A -> list (nat * Q)) l i,
  fraw_at (flat_map f l) i == qsum (map (fun x => fraw_at (f x) i) l).
Proof.
  induction l as [|a l IH]; intros; simpl.
  - reflexivity.
  - rewrite fraw_at_app. rewrite IH. reflexivity.
Qed.

(* ---------- C17 statements: sums over bars ---------- *)

Lemma kraw_sum_over_bars : forall (bars : list (pbar Q)) i j,
  kraw_at (all_contribs bars) i j == qsum (map (fun p => kraw_at (bar_contribs p) i j) bars).
Proof. intros. unfold all_contribs. apply kraw_flat_map. Qed.

Lemma fraw_sum_over_bars : forall (bars : list (pbar Q)) i,
  fraw_at (all_fterms bars) i == qsum (map (fun p => fraw_at (bar_fterms p) i) bars).
Proof. intros. unfold all_fterms. apply fraw_flat_map. Qed.

(* ---------- slice contributions ---------- *)

Lemma slice_contribs_placed : forall (b : bar Q) na nb da db i j,
  kraw_at (slice_contribs b na nb da db) i j ==
  placed (stiff_gen (b_L b) (b_c b) (b_s b) (pn_t na) (pn_t nb) (b_E b) (b_A b) (b_I b))
         (slice_numbers da db) i j.
Proof.
  intros. unfold slice_contribs, placed, slice_numbers.
  set (k := stiff_gen (b_L b) (b_c b) (b_s b) (pn_t na) (pn_t nb) (b_E b) (b_A b) (b_I b)).
  set (ds := d3_list da ++ d3_list db).
  cbv zeta.
  rewrite kraw_flat_map. apply qsum_ext. intros p.
  rewrite kraw_flat_map. apply qsum_ext. intros q.
  unfold filtered.
  destruct (close_to_zero (entry k p q)).
  - rewrite kraw_at_nil. destruct (_ && _); reflexivity.
  - rewrite kraw_at_cons, kraw_at_nil. unfold kcond. simpl fst. simpl snd.
    destruct (_ && _); ring.
Qed.

(* ---------- the 1e-10 filter ---------- *)

Lemma ctz_unfold : forall v : Q,
  close_to_zero v = negb (Qle_bool (1 # 10000000000) (Qabs (v - 0))).
Proof. reflexivity. Qed.

Lemma ctz_compat : forall v w : Q, v == w -> close_to_zero v = close_to_zero w.
Proof. intros v w H. rewrite !ctz_unfold. rewrite H. reflexivity. Qed.

Lemma filtered_compat : forall v w : Q, v == w -> filtered v == filtered w.
Proof.
  intros v w H. unfold filtered. rewrite (ctz_compat v w H).
  destruct (close_to_zero w); [reflexivity | exact H].
Qed.

Lemma filtered_id : forall k, no_tiny k ->
  forall p q, (p < 6)%nat -> (q < 6)%nat -> filtered (entry k p q) == entry k p q.
Proof.
  intros k Hk p q Hp Hq. unfold filtered.
  destruct (Hk p q Hp Hq) as [H0 | Hbig].
  - destruct (close_to_zero (entry k p q)); [symmetry; exact H0 | reflexivity].
  - rewrite ctz_unfold.
    assert (Hle : Qle_bool (1 # 10000000000) (Qabs (entry k p q - 0)) = true).
    { apply Qle_bool_iff.
      assert (He : entry k p q - 0 == entry k p q) by ring.
      rewrite He. exact Hbig. }
    rewrite Hle. simpl. reflexivity.
Qed.

(* ---------- load terms ---------- *)

Lemma node_fterms_at : forall (b : bar Q) (nd : pnode Q) (d : dof3) i,
  let g := to_global (b_c b) (b_s b) (pn_net nd) in
  fraw_at (node_fterms b (nd, d)) i ==
    (if Nat.eqb (fst (fst d)) i then t_fx g else 0) + (if Nat.eqb (snd (fst d)) i then t_fy g else 0)
    + (if Nat.eqb (snd d) i then t_mz g else 0).
Proof.
  intros b nd d i g. unfold node_fterms. cbv zeta. cbn [fst snd]. fold g. clearbody g.
  rewrite !fraw_at_cons, fraw_at_nil. cbn [fst snd]. ring.
Qed.

(* ---------- order independence ---------- *)

Lemma assemble_order_independent : forall (bars bars' : list (pbar Q)) i j, Permutation bars bars' ->
  kraw_at (all_contribs bars) i j == kraw_at (all_contribs bars') i j /\
  fraw_at (all_fterms bars) i == fraw_at (all_fterms bars') i.
Proof.
  intros bars bars' i j HP. split.
  - rewrite !kraw_sum_over_bars. apply qsum_perm. apply Permutation_map. exact HP.
  - rewrite !fraw_sum_over_bars. apply qsum_perm. apply Permutation_map. exact HP.
Qed.

(* ---------- symmetry ---------- *)

Lemma stiff_gen_sym : forall L c s t1 t2 E A I : Q, ~ L * (t2 - t1) == 0 ->
  forall i j, (i < 6)%nat -> (j < 6)%nat ->
  entry (stiff_gen L c s t1 t2 E A I) i j == entry (stiff_gen L c s t1 t2 E A I) j i.
Proof.
  intros L c s t1 t2 E A I Hl i j Hi Hj.
  assert (HL : ~ L == 0) by (intro H; apply Hl; rewrite H; ring).
  assert (Ht : ~ t2 - t1 == 0) by (intro H; apply Hl; rewrite H; ring).
  do 6 (destruct i as [|i]; [do 6 (destruct j as [|j]; [cbn; field; auto|]); exfalso; lia|]).
  exfalso; lia.
Qed.

Lemma placed_sym : forall k ds,
  (forall p q, (p < 6)%nat -> (q < 6)%nat -> entry k p q == entry k q p) ->
  forall i j, placed k ds i j == placed k ds j i.
Proof.
  intros k ds Hk i j. unfold placed.
  rewrite (qsum_swap nat nat
    (fun p q => if Nat.eqb (nth p ds 0%nat) j && Nat.eqb (nth q ds 0%nat) i
                then filtered (entry k p q) else 0) (seq 0 6) (seq 0 6)).
  apply qsum_ext_in. intros p Hp. apply qsum_ext_in. intros q Hq.
  apply in_seq in Hp. apply in_seq in Hq.
  rewrite (andb_comm (Nat.eqb (nth q ds 0%nat) j)).
  destruct (_ && _); [|reflexivity].
  apply filtered_compat. apply Hk; lia.
Qed.

Lemma slice_contribs_sym : forall (b : bar Q) na nb da db, ~ b_L b == 0 -> pn_t na < pn_t nb ->
  forall i j, kraw_at (slice_contribs b na nb da db) i j == kraw_at (slice_contribs b na nb da db) j i.
Proof.
  intros b na nb da db HL Ht i j. rewrite !slice_contribs_placed.
  apply placed_sym. apply stiff_gen_sym.
  intro H. apply Qmult_integral in H. destruct H as [H | H]; [exact (HL H) | lra].
Qed.

Lemma bar_contribs_from_sym : forall (b : bar Q), ~ b_L b == 0 ->
  forall rest na da, StronglySorted (fun x y => pn_t x < pn_t y) (na :: map fst rest) ->
  forall i j, kraw_at (bar_contribs_from b na da rest) i j == kraw_at (bar_contribs_from b na da rest) j i.
Proof.
  intros b HL. induction rest as [|[nb db] rest IH]; intros na da HS i j.
  - reflexivity.
  - simpl. rewrite !kraw_at_app. simpl in HS.
    apply StronglySorted_inv in HS. destruct HS as [HS HF].
    apply Forall_inv in HF.
    rewrite (slice_contribs_sym b na nb da db HL HF i j).
    rewrite (IH nb db HS i j). reflexivity.
Qed.

Lemma map_fst_combine_eq : forall (A B : Type) (l : list A) (l' : list B),
  length l = length l' -> map fst (combine l l') = l.
Proof.
  induction l as [|a l IH]; intros [|b l'] H; simpl in *; try discriminate; [reflexivity|].
  f_equal. apply IH. lia.
Qed.

Lemma bar_contribs_sym : forall p : pbar Q, wf_pbar p ->
  forall i j, kraw_at (bar_contribs p) i j == kraw_at (bar_contribs p) j i.
Proof.
  intros p [Hlen [HL HS]] i j. unfold bar_contribs.
  pose proof (map_fst_combine_eq _ _ _ _ Hlen) as Hm.
  destruct (combine (pb_nodes p) (pb_dofs p)) as [|[na da] rest].
  - reflexivity.
  - simpl in Hm. apply bar_contribs_from_sym; [exact HL|]. rewrite Hm. exact HS.
Qed.

Lemma all_contribs_sym : forall bars : list (pbar Q), Forall wf_pbar bars ->
  forall i j, kraw_at (all_contribs bars) i j == kraw_at (all_contribs bars) j i.
Proof.
  intros bars HF i j. rewrite !kraw_sum_over_bars.
  apply qsum_ext_in. intros p Hp. apply bar_contribs_sym.
  rewrite Forall_forall in HF. apply HF. exact Hp.
Qed.

Lemma row_empty_kraw : forall (cs : list (nat * nat * Q)) i j, row_empty cs i = true -> kraw_at cs i j == 0.
Proof.
  induction cs as [|c cs IH]; intros i j H.
  - reflexivity.
  - unfold row_empty in H. simpl in H. apply andb_true_iff in H. destruct H as [H1 H2].
    rewrite kraw_at_cons. rewrite (IH i j H2). unfold kcond.
    apply negb_true_iff in H1. rewrite H1. simpl. ring.
Qed.

Lemma delta_sym : forall i j, delta (F:=Q) i j == delta j i.
Proof. intros. unfold delta. rewrite Nat.eqb_sym. reflexivity. Qed.

Lemma k_final_symmetric : forall (bars : list (pbar Q)) sup i j, Forall wf_pbar bars ->
  k_final (all_contribs bars) sup i j == k_final (all_contribs bars) sup j i.
Proof.
  intros bars sup i j HF. pose proof (all_contribs_sym bars HF) as Hsym.
  set (cs := all_contribs bars) in *. unfold k_final.
  rewrite (orb_comm (is_supported sup j)).
  destruct (is_supported sup i || is_supported sup j).
  - apply delta_sym.
  - destruct (row_empty cs i) eqn:Ei; destruct (row_empty cs j) eqn:Ej.
    + apply delta_sym.
    + unfold delta. destruct (Nat.eqb i j) eqn:Eij.
      * apply Nat.eqb_eq in Eij. subst j. congruence.
      * rewrite (Hsym j i). rewrite (row_empty_kraw cs i j Ei). reflexivity.
    + unfold delta. destruct (Nat.eqb j i) eqn:Eij.
      * apply Nat.eqb_eq in Eij. subst j. congruence.
      * rewrite (Hsym i j). rewrite (row_empty_kraw cs j i Ej). reflexivity.
    + apply Hsym.
Qed.

(* ---------- constraints ---------- *)

Lemma constraints_only_touch : forall (cs : list (nat * nat * Q)) (fs : list (nat * Q)) sup i j,
  (is_supported sup i = true ->
     k_final cs sup i j == (if Nat.eqb i j then 1 else 0) /\
     k_final cs sup j i == (if Nat.eqb j i then 1 else 0) /\ f_final fs sup i == 0) /\
  (is_supported sup i = false -> is_supported sup j = false -> row_empty cs i = false ->
     k_final cs sup i j == kraw_at cs i j) /\
  (is_supported sup i = false -> f_final fs sup i == fraw_at fs i) /\
  (is_supported sup i = false -> is_supported sup j = false -> row_empty cs i = true ->
     k_final cs sup i j == (if Nat.eqb i j then 1 else 0)).
Proof.
  intros cs fs sup i j. unfold k_final, f_final, delta.
  split; [|split; [|split]].
  - intros H. rewrite H. rewrite orb_true_r. simpl. repeat split; reflexivity.
  - intros H1 H2 H3. rewrite H1, H2, H3. simpl. reflexivity.
  - intros H. rewrite H. reflexivity.
  - intros H1 H2 H3. rewrite H1, H2, H3. simpl. reflexivity.
Qed.
