(* Proofs for C06: every kernel the results pass through is linear in the loads, and so is the
   solution of the linear system. *)
From Coq Require Import ZArith QArith Qabs Reals List Bool Arith Lia Field Lqa.
From Inkfem Require Import Num.NumOps Gen.GenLoads Gen.GenRecover Spec.Stiffness
  Model.Types Model.Slice Model.Loads Model.Dof Model.Assemble Model.Recover
  Proofs.RecoverProofs Proofs.FieldProofs.
Import ListNotations.

(* ---- equivalent nodal loads are linear in the load intensities (all reals) ---- *)
Lemma lump_linear_R : forall (a s1 s2 s3 e1 e2 e3 s1' s2' s3' e1' e2' e3' len : R), (len <> 0 ->
  let r := lump_gen (O:=ROps) (a * s1 + s1') (a * s2 + s2') (a * s3 + s3') (a * e1 + e1') (a * e2 + e2') (a * e3 + e3') len in
  let p := lump_gen (O:=ROps) s1 s2 s3 e1 e2 e3 len in
  let q := lump_gen (O:=ROps) s1' s2' s3' e1' e2' e3' len in
  (t_fx (fst r) = a * t_fx (fst p) + t_fx (fst q) /\ t_fy (fst r) = a * t_fy (fst p) + t_fy (fst q) /\
   t_mz (fst r) = a * t_mz (fst p) + t_mz (fst q) /\
   t_fx (snd r) = a * t_fx (snd p) + t_fx (snd q) /\ t_fy (snd r) = a * t_fy (snd p) + t_fy (snd q) /\
   t_mz (snd r) = a * t_mz (snd p) + t_mz (snd q)))%R.
Proof.
  intros. unfold r, p, q, lump_gen, t_fx, t_fy, t_mz. cbn. repeat split; field; auto.
Qed.

Local Open Scope Q_scope.

Lemma lump_linear_Q : forall (a s1 s2 s3 e1 e2 e3 s1' s2' s3' e1' e2' e3' len : Q), ~ len == 0 ->
  let r := lump_gen (O:=QOps) (a * s1 + s1') (a * s2 + s2') (a * s3 + s3') (a * e1 + e1') (a * e2 + e2') (a * e3 + e3') len in
  let p := lump_gen (O:=QOps) s1 s2 s3 e1 e2 e3 len in
  let q := lump_gen (O:=QOps) s1' s2' s3' e1' e2' e3' len in
  t_fx (fst r) == a * t_fx (fst p) + t_fx (fst q) /\ t_fy (fst r) == a * t_fy (fst p) + t_fy (fst q) /\
  t_mz (fst r) == a * t_mz (fst p) + t_mz (fst q) /\
  t_fx (snd r) == a * t_fx (snd p) + t_fx (snd q) /\ t_fy (snd r) == a * t_fy (snd p) + t_fy (snd q) /\
  t_mz (snd r) == a * t_mz (snd p) + t_mz (snd q).
Proof.
  intros. unfold r, p, q, lump_gen, t_fx, t_fy, t_mz. cbn. repeat split; field; auto.
Qed.

(* ---- force recovery is linear in (displacements, nodal loads) ---- *)
Definition q4_lin (a : Q) (x y z : q4) : Prop :=
  q_ax z == a * q_ax x + q_ax y /\ q_sh z == a * q_sh x + q_sh y /\
  q_bm z == a * q_bm x + q_bm y /\ q_tf z == a * q_tf x + q_tf y.

Lemma recover_linear : forall (a E I S A len : Q)
  (d1 d2 d3 d4 d5 d6 l1 l2 l3 l4 l5 l6 d1' d2' d3' d4' d5' d6' l1' l2' l3' l4' l5' l6' : Q),
  ~ len == 0 -> ~ A == 0 -> ~ S == 0 ->
  let z := recover_gen (O:=QOps) E I S A len (a * d1 + d1') (a * d2 + d2') (a * d3 + d3') (a * d4 + d4') (a * d5 + d5') (a * d6 + d6')
             (a * l1 + l1') (a * l2 + l2') (a * l3 + l3') (a * l4 + l4') (a * l5 + l5') (a * l6 + l6') in
  let x := recover_gen (O:=QOps) E I S A len d1 d2 d3 d4 d5 d6 l1 l2 l3 l4 l5 l6 in
  let y := recover_gen (O:=QOps) E I S A len d1' d2' d3' d4' d5' d6' l1' l2' l3' l4' l5' l6' in
  q4_lin a (fst x) (fst y) (fst z) /\ q4_lin a (snd x) (snd y) (snd z).
Proof.
  intros. unfold z, x, y, q4_lin, recover_gen, q_ax, q_sh, q_bm, q_tf. cbn.
  repeat split; field; auto.
Qed.

Lemma end_torsors_linear : forall (a A ax sh bm ax' sh' bm' : Q),
  let z := start_torsor_gen (O:=QOps) A (a * ax + ax') (a * sh + sh') (a * bm + bm') in
  let x := start_torsor_gen (O:=QOps) A ax sh bm in let y := start_torsor_gen (O:=QOps) A ax' sh' bm' in
  let z' := end_torsor_gen (O:=QOps) A (a * ax + ax') (a * sh + sh') (a * bm + bm') in
  let x' := end_torsor_gen (O:=QOps) A ax sh bm in let y' := end_torsor_gen (O:=QOps) A ax' sh' bm' in
  (t_fx z == a * t_fx x + t_fx y /\ t_fy z == a * t_fy x + t_fy y /\ t_mz z == a * t_mz x + t_mz y) /\
  (t_fx z' == a * t_fx x' + t_fx y' /\ t_fy z' == a * t_fy x' + t_fy y' /\ t_mz z' == a * t_mz x' + t_mz y').
Proof.
  intros. unfold z, x, y, z', x', y', start_torsor_gen, end_torsor_gen, t_fx, t_fy, t_mz. cbn.
  repeat split; ring.
Qed.

(* projections between bar and global axes are linear *)
Lemma to_local_linear (c s a : Q) (t t' : tor Q) :
  tor_eqQ (to_local c s (a * t_fx t + t_fx t', a * t_fy t + t_fy t', a * t_mz t + t_mz t'))
          (a * t_fx (to_local c s t) + t_fx (to_local c s t'),
           a * t_fy (to_local c s t) + t_fy (to_local c s t'),
           a * t_mz (to_local c s t) + t_mz (to_local c s t')).
Proof. unfold tor_eqQ, to_local, t_fx, t_fy, t_mz. cbn. repeat split; ring. Qed.
Lemma to_global_linear (c s a : Q) (t t' : tor Q) :
  tor_eqQ (to_global c s (a * t_fx t + t_fx t', a * t_fy t + t_fy t', a * t_mz t + t_mz t'))
          (a * t_fx (to_global c s t) + t_fx (to_global c s t'),
           a * t_fy (to_global c s t) + t_fy (to_global c s t'),
           a * t_mz (to_global c s t) + t_mz (to_global c s t')).
Proof. unfold tor_eqQ, to_global, t_fx, t_fy, t_mz. cbn. repeat split; ring. Qed.

(* ---- the linear system ---- *)
Lemma mat_vec_linear n K a u1 u2 i :
  mat_vec n K (fun j => a * u1 j + u2 j) i == a * mat_vec n K u1 i + mat_vec n K u2 i.
Proof.
  unfold mat_vec.
  transitivity (fsum n (fun j => a * (K i j * u1 j) + K i j * u2 j)).
  - apply fsum_ext. intros j _. ring.
  - rewrite fsum_add, fsum_scale. reflexivity.
Qed.

(* scaling and superposition of solutions *)
Theorem solution_linear n K a f1 f2 u1 u2 :
  (forall i, (i < n)%nat -> mat_vec n K u1 i == f1 i) ->
  (forall i, (i < n)%nat -> mat_vec n K u2 i == f2 i) ->
  forall i, (i < n)%nat -> mat_vec n K (fun j => a * u1 j + u2 j) i == a * f1 i + f2 i.
Proof. intros H1 H2 i Hi. rewrite mat_vec_linear, (H1 i Hi), (H2 i Hi). reflexivity. Qed.

(* with a stable structure (left inverse) the solution for the combined loads IS the combination *)
Theorem combined_solution_is_combination n Kinv K a f1 f2 u1 u2 w :
  left_inverse n Kinv K ->
  (forall i, (i < n)%nat -> mat_vec n K u1 i == f1 i) ->
  (forall i, (i < n)%nat -> mat_vec n K u2 i == f2 i) ->
  (forall i, (i < n)%nat -> mat_vec n K w i == a * f1 i + f2 i) ->
  forall i, (i < n)%nat -> w i == a * u1 i + u2 i.
Proof.
  intros Hinv H1 H2 Hw i Hi.
  apply (unique_solution n Kinv K (fun i => a * f1 i + f2 i) w (fun j => a * u1 j + u2 j) Hinv Hw); [| exact Hi].
  intros k Hk. apply solution_linear; assumption.
Qed.

Theorem zero_loads_zero_solution n Kinv K u :
  left_inverse n Kinv K -> (forall i, (i < n)%nat -> mat_vec n K u i == 0) ->
  forall i, (i < n)%nat -> u i == 0.
Proof.
  intros Hinv Hu i Hi.
  apply (unique_solution n Kinv K (fun _ => 0) u (fun _ => 0) Hinv Hu); [| exact Hi].
  intros k Hk. unfold mat_vec. transitivity (fsum n (fun _ => 0)); [| apply fsum_zero].
  apply fsum_ext. intros j _. ring.
Qed.

(* ---- the load vector is linear in the nodal loads ---- *)
Lemma node_fterms_linear (b : bar Q) (a : Q) (n1 n2 n3 : pnode Q) (d : dof3) i :
  tor_eqQ (pn_net n3) (a * t_fx (pn_net n1) + t_fx (pn_net n2), a * t_fy (pn_net n1) + t_fy (pn_net n2),
                       a * t_mz (pn_net n1) + t_mz (pn_net n2)) ->
  fraw_at (node_fterms b (n3, d)) i == a * fraw_at (node_fterms b (n1, d)) i + fraw_at (node_fterms b (n2, d)) i.
Proof.
  intros (H1 & H2 & H3). unfold node_fterms, fraw_at, to_global, t_fx, t_fy, t_mz in *. cbn [fst snd fold_left] in *.
  cbn [nadd nmul nsub n0 QOps] in *.
  destruct (Nat.eqb (fst (fst d)) i); destruct (Nat.eqb (snd (fst d)) i); destruct (Nat.eqb (snd d) i);
    rewrite ?H1, ?H2, ?H3; ring.
Qed.
