(* Proofs for C18 on the event model of plot (Model/Plot.v). *)
From Coq Require Import ZArith QArith List Bool String Lia.
From Inkfem Require Import Gen.GenConsts Model.Types Model.Plot.
Import ListNotations.
Local Open Scope string_scope.

(* ---- well-formed nesting ---- *)
Definition balanced (l : list event) : Prop := forall d, depth_after d l = Some d.

Lemma depth_after_app a : forall d b,
  depth_after d (a ++ b) = match depth_after d a with Some d' => depth_after d' b | None => None end.
Proof.
  induction a as [|e a IH]; intros d b; cbn; [reflexivity|].
  destruct e; try apply IH. destruct d; [reflexivity | apply IH].
Qed.

Lemma balanced_app a b : balanced a -> balanced b -> balanced (a ++ b).
Proof. intros Ha Hb d. rewrite depth_after_app, Ha. apply Hb. Qed.

Lemma balanced_flat_map {A} (f : A -> list event) l : (forall x, balanced (f x)) -> balanced (flat_map f l).
Proof. intros H. induction l as [|x l IH]; [intros d; reflexivity|]. cbn. apply balanced_app; auto. Qed.

Definition flat_event (e : event) : Prop :=
  match e with EOpen _ | EClose _ | ELoadGroup _ _ _ _ => False | _ => True end.
Lemma balanced_map_flat {A} (f : A -> event) l : (forall x, flat_event (f x)) -> balanced (map f l).
Proof.
  intros H. induction l as [|x l IH]; intros d; cbn [map]; [reflexivity|].
  specialize (H x). destruct (f x); cbn in H; try contradiction; cbn [depth_after]; apply IH.
Qed.

Lemma polygons_balanced u ds b l : balanced (load_polygon u ds b l).
Proof. unfold load_polygon. destruct (pd_local l); [destruct (pd_term l)|]; intros d; reflexivity. Qed.

Lemma bar_loads_balanced u ds b : balanced (bar_loads u ds b).
Proof.
  unfold bar_loads. destruct (pb_has_loads b); [| intros d; reflexivity].
  intros d. cbn [app depth_after]. rewrite depth_after_app.
  rewrite (balanced_flat_map (load_polygon u ds b) (pb_dloads b) (polygons_balanced u ds b)). reflexivity.
Qed.

Lemma support_balanced u n : balanced (support_events u n).
Proof.
  unfold support_events. destruct (is_constrained_l (pi_c n)); [| intros d; reflexivity].
  destruct (support_kind (pi_c n)); intros d; reflexivity.
Qed.

(* the document is well nested: every group that is opened is closed, in order, and nothing
   is closed that was not opened - for every structure *)
Theorem events_balanced (p : plot_in) : depth_after 0 (plot_events p) = Some 0%nat.
Proof.
  unfold plot_events. destruct (canvas_size p) as [w h].
  cbn [app depth_after].
  rewrite depth_after_app, (balanced_flat_map _ _ (bar_loads_balanced _ _)).
  cbn [app depth_after].
  rewrite depth_after_app, balanced_map_flat by (intros x; exact I).
  rewrite depth_after_app, balanced_map_flat by (intros x; exact I).
  cbn [app depth_after].
  rewrite depth_after_app, (balanced_flat_map _ _ (support_balanced _)).
  reflexivity.
Qed.

(* ---- exactly one element per bar, node, supported node of a known kind, local load ---- *)
Definition sel (f : event -> bool) (l : list event) : list event := filter f l.
Definition is_barline e := match e with EBarLine _ _ _ _ _ => true | _ => false end.
Definition is_circle e := match e with ENodeCircle _ _ _ => true | _ => false end.
Definition is_support e := match e with ESupport _ _ _ => true | _ => false end.
Definition is_polygon e := match e with EPolygon _ _ _ _ => true | _ => false end.

Lemma filter_flat_map_nil {A} (g : event -> bool) (f : A -> list event) l :
  (forall x, filter g (f x) = []) -> filter g (flat_map f l) = [].
Proof. intros H. induction l as [|x l IH]; cbn; [reflexivity|]. rewrite filter_app, H, IH. reflexivity. Qed.
Lemma filter_map_all {A} (g : event -> bool) (f : A -> event) l : (forall x, g (f x) = true) -> filter g (map f l) = map f l.
Proof. intros H. induction l as [|x l IH]; cbn; [reflexivity|]. rewrite H, IH. reflexivity. Qed.
Lemma filter_map_none {A} (g : event -> bool) (f : A -> event) l : (forall x, g (f x) = false) -> filter g (map f l) = [].
Proof. intros H. induction l as [|x l IH]; cbn; [reflexivity|]. rewrite H, IH. reflexivity. Qed.

Lemma loads_no (g : event -> bool) u ds b :
  (forall x y c s, g (ELoadGroup x y c s) = false) -> (forall s, g (EOpen s) = false) -> (forall s, g (EClose s) = false) ->
  (forall a c d e, g (EPolygon a c d e) = false) -> filter g (bar_loads u ds b) = [].
Proof.
  intros H1 H2 H3 H4. unfold bar_loads. destruct (pb_has_loads b); [| reflexivity].
  cbn [app filter]. rewrite H1, H2, filter_app. cbn [filter]. rewrite !H3.
  rewrite filter_flat_map_nil; [reflexivity|].
  intros l. unfold load_polygon. destruct (pd_local l); [destruct (pd_term l)|]; cbn; rewrite ?H4; reflexivity.
Qed.
Lemma supports_no (g : event -> bool) u n :
  (forall s, g (EOpen s) = false) -> (forall s, g (EClose s) = false) -> (forall k x y, g (ESupport k x y) = false) ->
  filter g (support_events u n) = [].
Proof.
  intros H2 H3 H5. unfold support_events. destruct (is_constrained_l (pi_c n)); [| reflexivity].
  destruct (support_kind (pi_c n)); cbn; rewrite ?H2, ?H3, ?H5; reflexivity.
Qed.

Theorem one_line_per_bar (p : plot_in) :
  let u := units_scale (pl_bars p) in
  sel is_barline (plot_events p) =
  map (fun b => EBarLine (pb_id b) (trunc (pb_x1 b * u)) (trunc (pb_y1 b * u)) (trunc (pb_x2 b * u)) (trunc (pb_y2 b * u))) (pl_bars p).
Proof.
  intros u. unfold sel, plot_events. fold u. destruct (canvas_size p) as [w h].
  repeat (rewrite filter_app || cbn [app filter is_barline]).
  rewrite (filter_flat_map_nil is_barline); [| intros b; apply loads_no; reflexivity].
  rewrite (filter_map_all is_barline); [| reflexivity].
  rewrite (filter_map_none is_barline); [| reflexivity].
  rewrite (filter_flat_map_nil is_barline); [| intros n; apply supports_no; reflexivity].
  cbn. rewrite app_nil_r. reflexivity.
Qed.

Theorem one_circle_per_node (p : plot_in) :
  let u := units_scale (pl_bars p) in
  sel is_circle (plot_events p) = map (fun n => ENodeCircle (pi_id n) (trunc (pi_x n * u)) (trunc (pi_y n * u))) (pl_nodes p).
Proof.
  intros u. unfold sel, plot_events. fold u. destruct (canvas_size p) as [w h].
  repeat (rewrite filter_app || cbn [app filter is_circle]).
  rewrite (filter_flat_map_nil is_circle); [| intros b; apply loads_no; reflexivity].
  rewrite (filter_map_none is_circle); [| reflexivity].
  rewrite (filter_map_all is_circle); [| reflexivity].
  rewrite (filter_flat_map_nil is_circle); [| intros n; apply supports_no; reflexivity].
  cbn. rewrite app_nil_r. reflexivity.
Qed.

Lemma support_sel u n :
  filter is_support (support_events u n) =
  match support_kind (pi_c n) with 0%nat => [] | k => [ESupport k (trunc (pi_x n * u)) (trunc (pi_y n * u))] end.
Proof.
  unfold support_events. destruct (pi_c n) as [[|] [|] [|]]; reflexivity.
Qed.

Theorem one_glyph_per_known_support (p : plot_in) :
  let u := units_scale (pl_bars p) in
  sel is_support (plot_events p) =
  flat_map (fun n => match support_kind (pi_c n) with 0%nat => [] | k => [ESupport k (trunc (pi_x n * u)) (trunc (pi_y n * u))] end) (pl_nodes p).
Proof.
  intros u. unfold sel, plot_events. fold u. destruct (canvas_size p) as [w h].
  repeat (rewrite filter_app || cbn [app filter is_support]).
  rewrite (filter_flat_map_nil is_support); [| intros b; apply loads_no; reflexivity].
  rewrite (filter_map_none is_support); [| reflexivity].
  rewrite (filter_map_none is_support); [| reflexivity].
  cbn. rewrite app_nil_r. clearbody u.
  induction (pl_nodes p) as [|n l IH]; cbn; [reflexivity|]. rewrite filter_app, support_sel, IH. reflexivity.
Qed.

Lemma polygon_sel u ds b l : filter is_polygon (load_polygon u ds b l) = load_polygon u ds b l.
Proof. unfold load_polygon. destruct (pd_local l); [destruct (pd_term l)|]; reflexivity. Qed.

Theorem one_polygon_per_local_load (p : plot_in) :
  let u := units_scale (pl_bars p) in
  sel is_polygon (plot_events p) =
  flat_map (fun b => if pb_has_loads b then flat_map (load_polygon u (pl_dscale p) b) (pb_dloads b) else []) (pl_bars p).
Proof.
  intros u. unfold sel, plot_events. fold u. destruct (canvas_size p) as [w h].
  repeat (rewrite filter_app || cbn [app filter is_polygon]).
  rewrite (filter_map_none is_polygon); [| reflexivity].
  rewrite (filter_map_none is_polygon); [| reflexivity].
  rewrite (filter_flat_map_nil is_polygon (support_events u)); [| intros n; apply supports_no; reflexivity].
  cbn. rewrite !app_nil_r. clearbody u. generalize (pl_dscale p) as ds. intros ds.
  induction (pl_bars p) as [|b l IH]; cbn; [reflexivity|]. rewrite filter_app, IH. f_equal.
  unfold bar_loads. destruct (pb_has_loads b); [| reflexivity].
  cbn [app filter is_polygon]. rewrite filter_app. cbn. rewrite app_nil_r.
  induction (pb_dloads b) as [|x xs IHx]; cbn; [reflexivity|]. rewrite filter_app, polygon_sel, IHx. reflexivity.
Qed.

(* one group per loaded bar, at the bar's scaled start point and turned along the bar: its x axis has the direction
   (x2 - x1, y2 - y1) / length, so that what is drawn at local (x, 0) lies on the bar at distance x from its start *)
Definition is_loadgroup e := match e with ELoadGroup _ _ _ _ => true | _ => false end.
Definition load_group_of (u : Q) (b : pbar_in) : event :=
  ELoadGroup (pb_x1 b * u) (pb_y1 b * u) ((pb_x2 b - pb_x1 b) / pb_len b) ((pb_y2 b - pb_y1 b) / pb_len b).

Lemma loadgroup_sel u ds b : filter is_loadgroup (bar_loads u ds b) = if pb_has_loads b then [load_group_of u b] else [].
Proof.
  unfold bar_loads. destruct (pb_has_loads b); [| reflexivity].
  cbn [app filter is_loadgroup]. rewrite filter_app. cbn [filter is_loadgroup]. rewrite app_nil_r.
  rewrite filter_flat_map_nil; [reflexivity|].
  intros l. unfold load_polygon. destruct (pd_local l); [destruct (pd_term l)|]; reflexivity.
Qed.

Theorem one_turned_group_per_loaded_bar (p : plot_in) :
  let u := units_scale (pl_bars p) in
  sel is_loadgroup (plot_events p) = flat_map (fun b => if pb_has_loads b then [load_group_of u b] else []) (pl_bars p).
Proof.
  intros u. unfold sel, plot_events. fold u. destruct (canvas_size p) as [w h].
  repeat (rewrite filter_app || cbn [app filter is_loadgroup]).
  rewrite (filter_map_none is_loadgroup); [| reflexivity].
  rewrite (filter_map_none is_loadgroup); [| reflexivity].
  rewrite (filter_flat_map_nil is_loadgroup (support_events u)); [| intros n; apply supports_no; reflexivity].
  cbn. rewrite !app_nil_r. clearbody u. generalize (pl_dscale p) as ds. intros ds.
  induction (pl_bars p) as [|b l IH]; cbn; [reflexivity|]. rewrite filter_app, IH, loadgroup_sel. reflexivity.
Qed.

(* the point drawn at local (x, 0) of a bar's load group is the point of the bar at distance x / u from its start *)
Lemma load_group_lies_along_the_bar (u : Q) (b : pbar_in) (t : Q) : ~ pb_len b == 0 ->
  let c := (pb_x2 b - pb_x1 b) / pb_len b in let s := (pb_y2 b - pb_y1 b) / pb_len b in
  let x := u * (pb_len b * t) in
  pb_x1 b * u + c * x == u * (pb_x1 b + t * (pb_x2 b - pb_x1 b)) /\
  pb_y1 b * u + s * x == u * (pb_y1 b + t * (pb_y2 b - pb_y1 b)).
Proof. intros Hl c s x. unfold c, s, x. split; field; exact Hl. Qed.

(* a local load's polygon spans its start and end positions along the bar *)
Lemma polygon_spans u ds b l x0 x1 y0 y1 :
  In (EPolygon x0 x1 y0 y1) (load_polygon u ds b l) ->
  x0 = trunc (u * (pb_len b * pd_t0 l)) /\ x1 = trunc (u * (pb_len b * pd_t1 l)).
Proof.
  unfold load_polygon. destruct (pd_local l); [| intros []].
  destruct (pd_term l); intros [H|[]]; injection H as <- <- _ _; split; reflexivity.
Qed.

(* the canvas opens the document and its size follows from the bounding box, scale and margin *)
Theorem canvas_first (p : plot_in) :
  hd EEnd (plot_events p) = EStart (fst (canvas_size p)) (snd (canvas_size p)).
Proof. unfold plot_events. destruct (canvas_size p). reflexivity. Qed.

(* light and dark themes differ only in colours: every non-colour setting is the same *)
Fixpoint assoc (k : string) (l : list (string * string)) : option string :=
  match l with [] => None | (a, b) :: r => if String.eqb a k then Some b else assoc k r end.
Definition non_colour_keys : list string :=
  ["GeometryWidth"; "ExternalConstWidth"; "NodeRadius"; "ConstraintLength"; "DistLoadWidth"; "DistLoadArrowSize"].
Theorem themes_differ_only_in_colours :
  forallb (fun k => match assoc k c_plot_theme_light, assoc k c_plot_theme_dark with
                    | Some a, Some b => String.eqb a b | _, _ => false end) non_colour_keys = true /\
  map fst c_plot_theme_light = map fst c_plot_theme_dark.
Proof. split; vm_compute; reflexivity. Qed.
