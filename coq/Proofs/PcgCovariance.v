(* The iterates of the solver's loop (Gen/GenPcg.v) are covariant under a symmetric diagonal rescaling of the system: with
   K' i j = c s_i K i j s_j and f' i = d s_i f i (what writing a structure in other units does to its system of equations: s_i is
   1 for a translation equation and 1 / lam for a rotation equation, c = phi / lam, d = phi; and what scaling its loads does:
   s = 1, c = 1, d = the factor), the x, r and p of every pass are the old ones rescaled: x' = (d / c) x / s, r' = d s r,
   p' = (d / c) p / s, and the step lengths alpha and beta are the same numbers.  The Jacobi preconditioner (the inverse of the
   diagonal) is what makes this exact.  So in exact arithmetic the loop is unit-agnostic and linear in a common factor of the
   loads pass by pass; the only place where units enter is the absolute test |r_i| <= MaxError that decides when to stop
   (r' = d s r is not r) - which is the listed finding K-C09-absolute-residual-threshold. *)
From Coq Require Import ZArith QArith List Bool Arith Lia Setoid.
From Inkfem Require Import Gen.GenPcg Proofs.PcgProofs.
Import ListNotations.
Local Open Scope Q_scope.

Lemma sum_scaled (h h' : nat -> Q) (k : Q) : forall l, (forall j, h' j == k * h j) ->
  fold_left (fun acc j => acc + h' j) l 0 == k * fold_left (fun acc j => acc + h j) l 0.
Proof.
  intros l H. induction l as [|j l IH]; [cbn; ring|]. cbn [fold_left].
  rewrite (fold_add h' l (0 + h' j)), (fold_add h l (0 + h j)), IH, (H j). ring.
Qed.

Lemma ratio_scaled (k X Y : Q) : ~ k == 0 -> (k * X) / (k * Y) == X / Y.
Proof.
  intros Hk. unfold Qdiv. rewrite Qinv_mult_distr.
  setoid_replace (k * X * (/ k * / Y)) with ((k * / k) * (X * / Y)) by ring.
  rewrite Qmult_inv_r by exact Hk. ring.
Qed.

Lemma Q_apart_0_1' : ~ 1 == 0.
Proof. discriminate. Qed.

Section Covariance.
Variable n : nat.
Variables A : nat -> nat -> Q.
Variable b : nat -> Q.
Variable s : nat -> Q.
Variables c d : Q.
Hypothesis s_nonzero : forall i, ~ s i == 0.
Hypothesis diag_nonzero : forall i, ~ A i i == 0.
Hypothesis c_nonzero : ~ c == 0.
Hypothesis d_nonzero : ~ d == 0.

Ltac nz := repeat split; first [exact c_nonzero | exact d_nonzero | apply s_nonzero | apply diag_nonzero].

Variable A' : nat -> nat -> Q.
Variable b' : nat -> Q.
Hypothesis A'_is : forall i j, A' i j == c * s i * A i j * s j.
Hypothesis b'_is : forall i, b' i == d * s i * b i.

Definition related (t t' : pcg_state) : Prop :=
  forall i, pcg_x t' i == (d / c) * pcg_x t i / s i /\ pcg_r t' i == d * s i * pcg_r t i /\ pcg_p t' i == (d / c) * pcg_p t i / s i.

Lemma mv_related (u u' : nat -> Q) (i : nat) : (forall j, u' j == (d / c) * u j / s j) ->
  pcg_mv n A' u' i == d * s i * pcg_mv n A u i.
Proof.
  intros H. unfold pcg_mv. apply (sum_scaled (fun j => A i j * u j) (fun j => A' i j * u' j) (d * s i)).
  intros j. rewrite (H j), (A'_is i j). field. nz.
Qed.

Lemma rMr_related (r r' : nat -> Q) : (forall i, r' i == d * s i * r i) ->
  pcg_dot n r' (pcg_pre A' r') == (d * d / c) * pcg_dot n r (pcg_pre A r).
Proof.
  intros H. unfold pcg_dot. apply (sum_scaled (fun j => r j * pcg_pre A r j) (fun j => r' j * pcg_pre A' r' j) (d * d / c)).
  intros j. unfold pcg_pre. rewrite (H j), (A'_is j j). field. nz.
Qed.

Lemma pAp_related (p p' : nat -> Q) : (forall j, p' j == (d / c) * p j / s j) ->
  pcg_dot n p' (pcg_mv n A' p') == (d * d / c) * pcg_dot n p (pcg_mv n A p).
Proof.
  intros H. unfold pcg_dot. apply (sum_scaled (fun j => p j * pcg_mv n A p j) (fun j => p' j * pcg_mv n A' p' j) (d * d / c)).
  intros j. rewrite (mv_related p p' j H), (H j). field. nz.
Qed.

Lemma k_nonzero : ~ d * d / c == 0.
Proof.
  intros H. apply (Qmult_integral_l (d * d)) in H; [| intros E; apply Qmult_integral in E; destruct E; contradiction].
  assert (X : c * / c == 1) by (apply Qmult_inv_r; exact c_nonzero). rewrite H in X. ring_simplify in X. discriminate.
Qed.

Lemma init_related : related (pcg_init n A b) (pcg_init n A' b').
Proof.
  intros i. unfold pcg_init. cbn [pcg_x pcg_r pcg_p].
  assert (Z : forall (M : nat -> nat -> Q) k, pcg_mv n M (fun _ => 0) k == 0).
  { intros M k. unfold pcg_mv. induction (seq 0 n) as [|j l IH]; [reflexivity|]. cbn [fold_left].
    rewrite (fold_add (fun j => M k j * 0) l (0 + M k j * 0)). rewrite IH. ring. }
  split; [field; nz|]. split.
  - rewrite !Z, (b'_is i). ring.
  - unfold pcg_pre. rewrite !Z, (b'_is i), (A'_is i i). field. nz.
Qed.

Lemma step_related t t' : related t t' -> related (pcg_step n A t) (pcg_step n A' t').
Proof.
  intros H.
  assert (Hx : forall i, pcg_x t' i == (d / c) * pcg_x t i / s i) by (intro i; apply H).
  assert (Hr : forall i, pcg_r t' i == d * s i * pcg_r t i) by (intro i; apply H).
  assert (Hp : forall i, pcg_p t' i == (d / c) * pcg_p t i / s i) by (intro i; apply H).
  set (alpha := pcg_dot n (pcg_r t) (pcg_pre A (pcg_r t)) / pcg_dot n (pcg_p t) (pcg_mv n A (pcg_p t))).
  set (alpha' := pcg_dot n (pcg_r t') (pcg_pre A' (pcg_r t')) / pcg_dot n (pcg_p t') (pcg_mv n A' (pcg_p t'))).
  assert (Ea : alpha' == alpha).
  { unfold alpha', alpha. rewrite (rMr_related _ _ Hr), (pAp_related _ _ Hp). apply ratio_scaled, k_nonzero. }
  set (rn := fun i => pcg_r t i - alpha * pcg_mv n A (pcg_p t) i).
  set (rn' := fun i => pcg_r t' i - alpha' * pcg_mv n A' (pcg_p t') i).
  assert (Hrn : forall i, rn' i == d * s i * rn i).
  { intro i. unfold rn', rn. rewrite Ea, (Hr i), (mv_related _ _ i Hp). ring. }
  set (beta := pcg_dot n rn (pcg_pre A rn) / pcg_dot n (pcg_r t) (pcg_pre A (pcg_r t))).
  set (beta' := pcg_dot n rn' (pcg_pre A' rn') / pcg_dot n (pcg_r t') (pcg_pre A' (pcg_r t'))).
  assert (Eb : beta' == beta).
  { unfold beta', beta. rewrite (rMr_related _ _ Hrn), (rMr_related _ _ Hr). apply ratio_scaled, k_nonzero. }
  intros i. unfold pcg_step. cbn [pcg_x pcg_r pcg_p]. fold alpha alpha'. fold rn rn'. fold beta beta'.
  split; [| split].
  - rewrite Ea, (Hx i), (Hp i). field. nz.
  - apply Hrn.
  - unfold pcg_pre. rewrite Eb, (Hrn i), (Hp i), (A'_is i i). field. nz.
Qed.

Lemma iter_related : forall k t t', related t t' -> related (pcg_iter n A k t) (pcg_iter n A' k t').
Proof. induction k as [|k IH]; intros t t' H; [exact H|]. cbn [pcg_iter]. apply IH, step_related, H. Qed.

(* THEOREM: pass by pass, the answer for the rescaled system is the rescaled answer, and its residual vector the rescaled one *)
Theorem iterates_are_covariant (k i : nat) :
  pcg_answer n A' b' k i == (d / c) * pcg_answer n A b k i / s i /\
  pcg_r (pcg_iter n A' k (pcg_init n A' b')) i == d * s i * pcg_r (pcg_iter n A k (pcg_init n A b)) i.
Proof.
  destruct (iter_related k _ _ init_related i) as (X & R & _). split; [exact X | exact R].
Qed.
End Covariance.

(* scaling every load by a common factor scales every iterate by it (s = 1, c = 1, d = the factor) *)
Corollary iterates_scale_with_the_loads (n : nat) (A : nat -> nat -> Q) (b : nat -> Q) (a : Q) (k i : nat) :
  (forall j, ~ A j j == 0) -> ~ a == 0 ->
  pcg_answer n A (fun j => a * b j) k i == a * pcg_answer n A b k i.
Proof.
  intros HA Ha.
  assert (H1 : forall p q, A p q == 1 * (fun _ : nat => 1) p * A p q * (fun _ : nat => 1) q) by (intros; cbv beta; ring).
  assert (H2 : forall p, (fun j => a * b j) p == a * (fun _ : nat => 1) p * b p) by (intros; cbv beta; ring).
  destruct (iterates_are_covariant n A b (fun _ => 1) 1 a (fun _ => Q_apart_0_1') HA Q_apart_0_1' Ha A (fun j => a * b j) H1 H2 k i) as (X & _).
  rewrite X. field.
Qed.
