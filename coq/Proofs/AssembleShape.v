(* The assembly as the source writes it (Gen/GenAssemble.v, regenerated from preprocess/structure.go and
   preprocess/element.go on every run) is the assembly of the model (Model/Assemble.v): the six numbers a
   finite element is placed at, the three entries a node's load goes to, and the order of the steps. *)
From Coq Require Import ZArith QArith List Bool Arith.
From Inkfem Require Import Num.NumOps Gen.GenStiffness Gen.GenAssemble Model.Types Model.Slice Model.Dof Model.Assemble
  Spec.Superposition Proofs.AssembleProofs.
Import ListNotations.
Local Open Scope Q_scope.

Lemma slice_numbers_as_written : forall da db : dof3, asm_slice_numbers da db = slice_numbers da db.
Proof. intros [[a1 a2] a3] [[b1 b2] b3]. reflexivity. Qed.

Lemma load_terms_as_written : forall (b : bar Q) (nd : pnode Q) (d : dof3),
  node_fterms b (nd, d) =
  let g := to_global (b_c b) (b_s b) (pn_net nd) in asm_load_terms d (t_fx g) (t_fy g) (t_mz g).
Proof. intros b nd [[d1 d2] d3]. reflexivity. Qed.

Lemma steps_as_written :
  asm_per_bar = [AsmBarStiffness; AsmBarLoads] /\ asm_after_bars = [AsmTrivialRows; AsmSupports] /\
  asm_bars_one_after_the_other = true /\ asm_skips_negligible_terms = true.
Proof. repeat split. Qed.

(* a finite element's stiffness is placed at the numbers the source lists *)
Lemma slice_placed_as_written : forall (b : bar Q) na nb da db i j,
  kraw_at (slice_contribs b na nb da db) i j ==
  placed (stiff_gen (b_L b) (b_c b) (b_s b) (pn_t na) (pn_t nb) (b_E b) (b_A b) (b_I b))
         (asm_slice_numbers da db) i j.
Proof. intros. rewrite slice_numbers_as_written. apply slice_contribs_placed. Qed.

(* a node's load reaches exactly the entries the source adds it to *)
Lemma node_load_as_written : forall (b : bar Q) (nd : pnode Q) (d : dof3) i,
  let g := to_global (b_c b) (b_s b) (pn_net nd) in
  fraw_at (node_fterms b (nd, d)) i == fraw_at (asm_load_terms d (t_fx g) (t_fy g) (t_mz g)) i.
Proof. intros. rewrite load_terms_as_written. reflexivity. Qed.

(* the numbers that get the trivial equation are those the source picks for a supported node *)
Lemma supported_numbers_as_written : forall nodes : list (link * dof3),
  supported_of nodes =
  flat_map (fun p => asm_supported_numbers (lk_dx (fst p)) (lk_dy (fst p)) (lk_rz (fst p)) (snd p)) nodes.
Proof. intros. reflexivity. Qed.

Lemma supported_number_is_trivial : forall (cs : list (nat * nat * Q)) (fs : list (nat * Q)) (nodes : list (link * dof3)) l d i j,
  In (l, d) nodes -> In i (asm_supported_numbers (lk_dx l) (lk_dy l) (lk_rz l) d) ->
  k_final cs (supported_of nodes) i j == (if Nat.eqb i j then 1 else 0) /\
  k_final cs (supported_of nodes) j i == (if Nat.eqb j i then 1 else 0) /\
  f_final fs (supported_of nodes) i == 0.
Proof.
  intros cs fs nodes l d i j Hin Hi.
  assert (Hs : is_supported (supported_of nodes) i = true).
  { unfold is_supported. apply existsb_exists. exists i. split; [| apply Nat.eqb_refl].
    rewrite supported_numbers_as_written. apply in_flat_map. exists (l, d). split; [exact Hin | exact Hi]. }
  apply (proj1 (constraints_only_touch cs fs (supported_of nodes) i j) Hs).
Qed.
