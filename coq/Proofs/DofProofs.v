(* C16 proofs: the equation numbering issues consecutive numbers to a duplicate-free list of
   unknowns (the allocation order); the number of an unknown is its index in that list. *)
From Coq Require Import Arith List Bool Lia Permutation.
From Inkfem Require Import Model.Types Model.Dof Spec.Unknowns.
Import ListNotations.

Definition dsk : skel :=
  {| sk_n1 := 0; sk_n2 := 0; sk_l1 := rigid; sk_l2 := rigid; sk_nn := 0 |}.

(* ---------- allocation order (spec level) ---------- *)
Definition mem (n : nat) (seen : list nat) : bool := existsb (Nat.eqb n) seen.
Definition add_seen (n : nat) (seen : list nat) : list nat := if mem n seen then seen else n :: seen.

Definition node_alloc (n : nat) (seen : list nat) : list unknown :=
  if mem n seen then [] else [UNode n Dx; UNode n Dy; UNode n Rz].
Definition end_alloc (b ni : nat) (lk : link) : list unknown :=
  (if lk_dx lk then [] else [UOwn b ni Dx]) ++
  (if lk_dy lk then [] else [UOwn b ni Dy]) ++
  (if lk_rz lk then [] else [UOwn b ni Rz]).
Fixpoint mid_alloc (b ni cnt : nat) : list unknown :=
  match cnt with
  | 0 => []
  | S c => UOwn b ni Dx :: UOwn b ni Dy :: UOwn b ni Rz :: mid_alloc b (S ni) c
  end.
Definition bar_alloc (b : nat) (seen : list nat) (s : skel) : list unknown :=
  node_alloc (sk_n1 s) seen ++ end_alloc b 0 (sk_l1 s) ++ mid_alloc b 1 (sk_nn s - 2) ++
  node_alloc (sk_n2 s) (add_seen (sk_n1 s) seen) ++ end_alloc b (sk_nn s - 1) (sk_l2 s).
Definition bar_seen (seen : list nat) (s : skel) : list nat :=
  add_seen (sk_n2 s) (add_seen (sk_n1 s) seen).
Fixpoint alloc (b : nat) (seen : list nat) (bars : list skel) : list unknown :=
  match bars with
  | [] => []
  | s :: r => bar_alloc b seen s ++ alloc (S b) (bar_seen seen s) r
  end.
Fixpoint seen_after (seen : list nat) (bars : list skel) : list nat :=
  match bars with
  | [] => seen
  | s :: r => seen_after (bar_seen seen s) r
  end.

Definition node_ok (m : ndofs) (L : list unknown) : Prop :=
  forall n d, lookup n m = Some d -> forall c, nth_error L (d3_comp d c) = Some (UNode n c).

(* ---------- basic helpers ---------- *)
Lemma mem_In n l : mem n l = true <-> In n l.
Proof.
  unfold mem. rewrite existsb_exists. split.
  - intros [x [Hx He]]. apply Nat.eqb_eq in He. subst. exact Hx.
  - intros H. exists n. split; [exact H | apply Nat.eqb_refl].
Qed.

Lemma mem_false_In n l : mem n l = false <-> ~ In n l.
Proof.
  rewrite <- mem_In. destruct (mem n l); split; intros H; try congruence.
Qed.

Lemma lookup_mem n m : lookup n m = None <-> mem n (map fst m) = false.
Proof.
  induction m as [|[k d] r IH]; simpl.
  - tauto.
  - rewrite (Nat.eqb_sym n k). destruct (Nat.eqb k n); simpl.
    + split; discriminate.
    + exact IH.
Qed.

Lemma nth_error_app_some {A} (P X : list A) k u :
  nth_error P k = Some u -> nth_error (P ++ X) k = Some u.
Proof.
  intros H. rewrite nth_error_app1; [exact H|]. apply nth_error_Some. congruence.
Qed.

Lemma node_ok_app m L X : node_ok m L -> node_ok m (L ++ X).
Proof. intros H n d Hl c. apply nth_error_app_some. eapply H; eauto. Qed.

Ltac solve_nth :=
  match goal with
  | |- nth_error (?P ++ ?l) ?k = Some _ =>
    rewrite (nth_error_app2 P l) by lia;
    first [ replace (k - length P) with 0 by lia; reflexivity
          | replace (k - length P) with 1 by lia; reflexivity
          | replace (k - length P) with 2 by lia; reflexivity ]
  end.

(* ---------- the steps of the algorithm ---------- *)
Lemma assign_node_spec n next m k m' d P :
  assign_node n next m = (k, m', d) -> length P = next -> node_ok m P ->
  length (P ++ node_alloc n (map fst m)) = k /\
  map fst m' = add_seen n (map fst m) /\
  node_ok m' (P ++ node_alloc n (map fst m)) /\
  lookup n m' = Some d.
Proof.
  unfold assign_node, node_alloc, add_seen. intros H HP Hok.
  destruct (lookup n m) as [d0|] eqn:E.
  - assert (Hm : mem n (map fst m) = true).
    { destruct (mem n (map fst m)) eqn:Em; auto. apply lookup_mem in Em. congruence. }
    rewrite Hm. inversion H; subst. rewrite app_nil_r. auto.
  - assert (Hm : mem n (map fst m) = false) by (apply lookup_mem; exact E).
    rewrite Hm. inversion H; subst. repeat split.
    + rewrite app_length. simpl. lia.
    + intros x d' Hl c. simpl in Hl. destruct (Nat.eqb n x) eqn:Ex.
      * apply Nat.eqb_eq in Ex. subst x. inversion Hl; subst.
        destruct c; simpl; solve_nth.
      * apply nth_error_app_some. eapply Hok; eauto.
    + simpl. rewrite Nat.eqb_refl. reflexivity.
Qed.

Lemma end_dofs_spec lk nd next t k P b ni n :
  end_dofs lk nd next = (t, k) -> length P = next ->
  (forall c, nth_error P (d3_comp nd c) = Some (UNode n c)) ->
  length (P ++ end_alloc b ni lk) = k /\
  forall c, nth_error (P ++ end_alloc b ni lk) (d3_comp t c) =
            Some (if lk_comp lk c then UNode n c else UOwn b ni c).
Proof.
  destruct lk as [bx by_ bz]. destruct nd as [[ndx ndy] nrz].
  unfold end_dofs, end_alloc. simpl. intros H HP Hn.
  pose proof (Hn Dx) as Hx. pose proof (Hn Dy) as Hy. pose proof (Hn Rz) as Hz. simpl in Hx, Hy, Hz.
  destruct bx, by_, bz; simpl in *; inversion H; subst; split;
    try (rewrite app_length; simpl; lia);
    intros c; destruct c; cbv [d3_comp lk_comp lk_dx lk_dy lk_rz fst snd];
    first [ apply nth_error_app_some; assumption | solve_nth ].
Qed.

Lemma fresh_spec cnt : forall k b ni0 P, length P = k ->
  length (fresh_triples k cnt) = cnt /\
  length (P ++ mid_alloc b ni0 cnt) = k + 3 * cnt /\
  forall j c, j < cnt ->
    nth_error (P ++ mid_alloc b ni0 cnt) (d3_comp (nth j (fresh_triples k cnt) (0, 0, 0)) c) =
    Some (UOwn b (ni0 + j) c).
Proof.
  induction cnt as [|cnt IH]; intros k b ni0 P HP.
  - simpl. rewrite app_nil_r. split; [reflexivity|]. split; [lia|]. intros; lia.
  - simpl fresh_triples. simpl mid_alloc.
    set (P' := P ++ [UOwn b ni0 Dx; UOwn b ni0 Dy; UOwn b ni0 Rz]).
    assert (HP' : length P' = k + 3) by (unfold P'; rewrite app_length; simpl; lia).
    assert (HE : P ++ UOwn b ni0 Dx :: UOwn b ni0 Dy :: UOwn b ni0 Rz :: mid_alloc b (S ni0) cnt
                 = P' ++ mid_alloc b (S ni0) cnt).
    { unfold P'. rewrite <- app_assoc. reflexivity. }
    rewrite HE. destruct (IH (k + 3) b (S ni0) P' HP') as [I1 [I2 I3]].
    repeat split.
    + simpl. rewrite I1. reflexivity.
    + rewrite I2. lia.
    + intros j c Hj. destruct j as [|j].
      * replace (ni0 + 0) with ni0 by lia. apply nth_error_app_some. unfold P'.
        subst k. destruct c; simpl; solve_nth.
      * replace (ni0 + S j) with (S ni0 + j) by lia. simpl nth. apply I3. lia.
Qed.

Lemma assign_bar_spec s next m b P k m' ds :
  wf_skel s -> assign_bar next m s = (k, m', ds) -> length P = next -> node_ok m P ->
  length (P ++ bar_alloc b (map fst m) s) = k /\
  map fst m' = bar_seen (map fst m) s /\
  node_ok m' (P ++ bar_alloc b (map fst m) s) /\
  length ds = sk_nn s /\
  forall ni c, ni < sk_nn s ->
    nth_error (P ++ bar_alloc b (map fst m) s) (d3_comp (nth ni ds (0, 0, 0)) c) =
    Some (unknown_of b s ni c).
Proof.
  unfold wf_skel, assign_bar. intros Hwf H HP Hok.
  destruct (assign_node (sk_n1 s) next m) as [[k0 m1] d1] eqn:E1.
  destruct (end_dofs (sk_l1 s) d1 k0) as [first k1] eqn:E2.
  destruct (assign_node (sk_n2 s) (k1 + 3 * (sk_nn s - 2)) m1) as [[k3 m2] d2] eqn:E3.
  destruct (end_dofs (sk_l2 s) d2 k3) as [last k4] eqn:E4.
  inversion H; subst k4 m2 ds. clear H.
  destruct (assign_node_spec _ _ _ _ _ _ P E1 HP Hok) as [A1 [A2 [A3 A4]]].
  set (L1 := P ++ node_alloc (sk_n1 s) (map fst m)) in *.
  destruct (end_dofs_spec _ _ _ _ _ L1 b 0 (sk_n1 s) E2 A1 (A3 _ _ A4)) as [B1 B2].
  set (L2 := L1 ++ end_alloc b 0 (sk_l1 s)) in *.
  destruct (fresh_spec (sk_nn s - 2) k1 b 1 L2 B1) as [C1 [C2 C3]].
  set (L3 := L2 ++ mid_alloc b 1 (sk_nn s - 2)) in *.
  assert (Hok3 : node_ok m1 L3).
  { unfold L3, L2. apply node_ok_app. apply node_ok_app. exact A3. }
  destruct (assign_node_spec _ _ _ _ _ _ L3 E3 C2 Hok3) as [D1 [D2 [D3 D4]]].
  set (L4 := L3 ++ node_alloc (sk_n2 s) (map fst m1)) in *.
  destruct (end_dofs_spec _ _ _ _ _ L4 b (sk_nn s - 1) (sk_n2 s) E4 D1 (D3 _ _ D4)) as [F1 F2].
  set (L5 := L4 ++ end_alloc b (sk_nn s - 1) (sk_l2 s)) in *.
  assert (HL : P ++ bar_alloc b (map fst m) s = L5).
  { unfold L5, L4, L3, L2, L1, bar_alloc. rewrite A2. repeat rewrite <- app_assoc. reflexivity. }
  rewrite HL. repeat split.
  - exact F1.
  - unfold bar_seen. rewrite <- A2. exact D2.
  - unfold L5. apply node_ok_app. exact D3.
  - simpl. rewrite app_length. simpl. rewrite C1. lia.
  - intros ni c Hni. unfold unknown_of.
    destruct (Nat.eqb ni 0) eqn:N0.
    + apply Nat.eqb_eq in N0. subst ni. simpl nth.
      unfold L5, L4, L3. do 3 apply nth_error_app_some. apply B2.
    + apply Nat.eqb_neq in N0. destruct (Nat.eqb ni (sk_nn s - 1)) eqn:N1.
      * apply Nat.eqb_eq in N1. subst ni.
        destruct (sk_nn s - 1) as [|q] eqn:Eq; [lia|]. simpl nth.
        rewrite app_nth2 by lia.
        replace (q - length (fresh_triples k1 (sk_nn s - 2))) with 0 by lia.
        simpl nth. apply F2.
      * apply Nat.eqb_neq in N1. destruct ni as [|q]; [lia|]. simpl nth.
        rewrite app_nth1 by lia.
        unfold L5, L4. do 2 apply nth_error_app_some.
        replace (S q) with (1 + q) by lia. apply C3. lia.
Qed.

Lemma assign_from_spec bars : forall next m b0 P k m' dss,
  Forall wf_skel bars -> assign_from next m bars = (k, m', dss) -> length P = next -> node_ok m P ->
  length (P ++ alloc b0 (map fst m) bars) = k /\
  map fst m' = seen_after (map fst m) bars /\
  node_ok m' (P ++ alloc b0 (map fst m) bars) /\
  length dss = length bars /\
  forall i, i < length bars ->
    length (nth i dss []) = sk_nn (nth i bars dsk) /\
    forall ni c, ni < sk_nn (nth i bars dsk) ->
      nth_error (P ++ alloc b0 (map fst m) bars) (d3_comp (nth ni (nth i dss []) (0, 0, 0)) c) =
      Some (unknown_of (b0 + i) (nth i bars dsk) ni c).
Proof.
  induction bars as [|s r IH]; intros next m b0 P k m' dss Hwf H HP Hok.
  - simpl in *. inversion H; subst. rewrite app_nil_r. repeat split; auto; simpl in *; lia.
  - simpl in H.
    destruct (assign_bar next m s) as [[k1 m1] ds] eqn:E1.
    destruct (assign_from k1 m1 r) as [[k2 m2] dss'] eqn:E2.
    inversion H; subst k2 m2 dss. clear H.
    inversion Hwf as [|? ? Hs Hr]; subst.
    destruct (assign_bar_spec s _ m b0 P _ _ _ Hs E1 eq_refl Hok) as [B1 [B2 [B3 [B4 B5]]]].
    destruct (IH _ _ (S b0) (P ++ bar_alloc b0 (map fst m) s) _ _ _ Hr E2 B1 B3)
      as [I1 [I2 [I3 [I4 I5]]]].
    rewrite B2 in I1, I2, I3, I5.
    simpl alloc. simpl seen_after. rewrite app_assoc.
    split; [exact I1|]. split; [exact I2|]. split; [exact I3|].
    split; [simpl; rewrite I4; reflexivity|].
    intros i Hi. destruct i as [|i]; simpl nth.
    + split; [exact B4|]. intros ni c Hni.
      replace (b0 + 0) with b0 by lia. apply nth_error_app_some. apply B5. exact Hni.
    + assert (Hi' : i < length r) by (simpl in Hi; lia).
      destruct (I5 i Hi') as [J1 J2]. split; [exact J1|]. intros ni c Hni.
      replace (b0 + S i) with (S b0 + i) by lia. apply J2. exact Hni.
Qed.

(* ---------- membership in the allocation order ---------- *)
Lemma In_add_seen x n seen : In x (add_seen n seen) <-> x = n \/ In x seen.
Proof.
  unfold add_seen. destruct (mem n seen) eqn:E.
  - apply mem_In in E. split; [tauto|]. intros [->|H]; assumption.
  - simpl. split; intros [H|H]; auto.
Qed.

Lemma In_bar_seen x seen s : In x (bar_seen seen s) <-> x = sk_n2 s \/ x = sk_n1 s \/ In x seen.
Proof. unfold bar_seen. rewrite !In_add_seen. tauto. Qed.

Lemma In_seen_after bars : forall seen n,
  In n (seen_after seen bars) <-> In n seen \/ exists s, In s bars /\ (sk_n1 s = n \/ sk_n2 s = n).
Proof.
  induction bars as [|s r IH]; intros seen n; simpl.
  - split; [tauto|]. intros [H|[s [[] _]]]. exact H.
  - rewrite IH, In_bar_seen. split.
    + intros [[H|[H|H]]|[s' [H1 H2]]]; eauto 6.
    + intros [H|[s' [[H1|H1] H2]]]; subst; eauto 6.
      destruct H2; subst; auto.
Qed.

Lemma In_node_alloc u n seen :
  In u (node_alloc n seen) <-> ~ In n seen /\ exists c, u = UNode n c.
Proof.
  unfold node_alloc. destruct (mem n seen) eqn:E.
  - apply mem_In in E. simpl. tauto.
  - apply mem_false_In in E. simpl. split.
    + intros [H|[H|[H|[]]]]; subst; eauto.
    + intros [_ [[] ->]]; auto.
Qed.

Lemma In_end_alloc u b ni lk :
  In u (end_alloc b ni lk) <-> exists c, u = UOwn b ni c /\ lk_comp lk c = false.
Proof.
  destruct lk as [bx by_ bz]. unfold end_alloc. simpl. split.
  - destruct bx, by_, bz; simpl; intros H;
      repeat (destruct H as [H|H]); try contradiction; subst;
      first [ exists Dx; split; reflexivity | exists Dy; split; reflexivity | exists Rz; split; reflexivity ].
  - intros [c [-> Hc]]. destruct c; simpl in Hc; subst; simpl; auto;
      destruct bx; simpl; auto; destruct by_; simpl; auto.
Qed.

Lemma In_mid_alloc u b cnt : forall ni0,
  In u (mid_alloc b ni0 cnt) <-> exists ni c, u = UOwn b ni c /\ ni0 <= ni < ni0 + cnt.
Proof.
  induction cnt as [|cnt IH]; intros ni0; simpl.
  - split; [tauto|]. intros [ni [c [_ H]]]. lia.
  - rewrite IH. split.
    + intros [H|[H|[H|[ni [c [H1 H2]]]]]]; subst.
      * exists ni0, Dx. split; [reflexivity|lia].
      * exists ni0, Dy. split; [reflexivity|lia].
      * exists ni0, Rz. split; [reflexivity|lia].
      * exists ni, c. split; [reflexivity|lia].
    + intros [ni [c [-> H]]]. destruct (Nat.eq_dec ni ni0) as [->|Hne].
      * destruct c; auto.
      * right; right; right. exists ni, c. split; [reflexivity|lia].
Qed.

Lemma NoDup_app_intro {A} (l1 l2 : list A) :
  NoDup l1 -> NoDup l2 -> (forall x, In x l1 -> In x l2 -> False) -> NoDup (l1 ++ l2).
Proof.
  induction l1 as [|a l1 IH]; simpl; intros H1 H2 H; [exact H2|].
  inversion H1; subst. constructor.
  - rewrite in_app_iff. intros [Hin|Hin]; [contradiction|]. eapply H; eauto.
  - apply IH; auto. intros x Hx. apply H. auto.
Qed.

Lemma NoDup_node_alloc n seen : NoDup (node_alloc n seen).
Proof.
  unfold node_alloc. destruct (mem n seen); [constructor|].
  repeat constructor; simpl; intuition discriminate.
Qed.

Lemma NoDup_end_alloc b ni lk : NoDup (end_alloc b ni lk).
Proof.
  destruct lk as [bx by_ bz]. unfold end_alloc. simpl.
  destruct bx, by_, bz; simpl; repeat constructor; simpl; intuition discriminate.
Qed.

Lemma NoDup_mid_alloc b cnt : forall ni0, NoDup (mid_alloc b ni0 cnt).
Proof.
  induction cnt as [|cnt IH]; intros ni0; simpl; [constructor|].
  assert (Hn : forall c, ~ In (UOwn b ni0 c) (mid_alloc b (S ni0) cnt)).
  { intros c H. apply In_mid_alloc in H. destruct H as [ni [c' [He Hr]]]. inversion He. lia. }
  repeat constructor; simpl; auto.
  - intros [H|[H|H]]; try discriminate. eapply Hn; eauto.
  - intros [H|H]; try discriminate. eapply Hn; eauto.
Qed.

Lemma In_bar_alloc u b seen s : wf_skel s -> In u (bar_alloc b seen s) ->
  match u with
  | UNode n c => ~ In n seen /\ In n (bar_seen seen s)
  | UOwn bi ni c => bi = b /\ ni < sk_nn s /\ unknown_of b s ni c = UOwn b ni c
  end.
Proof.
  unfold wf_skel, bar_alloc. intros Hwf.
  rewrite !in_app_iff, !In_node_alloc, !In_end_alloc, In_mid_alloc.
  intros [[Hs [c ->]]|[[c [-> Hc]]|[[ni [c [-> Hr]]]|[[Hs [c ->]]|[c [-> Hc]]]]]].
  - split; [exact Hs|]. apply In_bar_seen. auto.
  - split; [reflexivity|]. split; [lia|]. unfold unknown_of. simpl. rewrite Hc. reflexivity.
  - split; [reflexivity|]. split; [lia|]. unfold unknown_of.
    destruct (Nat.eqb ni 0) eqn:E0; [apply Nat.eqb_eq in E0; lia|].
    destruct (Nat.eqb ni (sk_nn s - 1)) eqn:E1; [apply Nat.eqb_eq in E1; lia|]. reflexivity.
  - split.
    + intros H. apply Hs. apply In_add_seen. auto.
    + apply In_bar_seen. auto.
  - split; [reflexivity|]. split; [lia|]. unfold unknown_of.
    destruct (Nat.eqb (sk_nn s - 1) 0) eqn:E0; [apply Nat.eqb_eq in E0; lia|].
    rewrite Nat.eqb_refl, Hc. reflexivity.
Qed.

Lemma NoDup_bar_alloc b seen s : wf_skel s -> NoDup (bar_alloc b seen s).
Proof.
  unfold wf_skel, bar_alloc. intros Hwf.
  apply NoDup_app_intro; [apply NoDup_node_alloc| |].
  apply NoDup_app_intro; [apply NoDup_end_alloc| |].
  apply NoDup_app_intro; [apply NoDup_mid_alloc| |].
  apply NoDup_app_intro; [apply NoDup_node_alloc|apply NoDup_end_alloc|].
  - intros x. rewrite In_node_alloc, In_end_alloc.
    intros [_ [c ->]] [c' [H _]]. discriminate.
  - intros x. rewrite in_app_iff, In_mid_alloc, In_node_alloc, In_end_alloc.
    intros [ni [c [-> Hr]]] [[_ [c' H]]|[c' [H _]]]; [discriminate|]. inversion H. lia.
  - intros x. rewrite !in_app_iff, In_mid_alloc, In_node_alloc, !In_end_alloc.
    intros [c [-> _]] [[ni [c' [H Hr]]]|[[_ [c' H]]|[c' [H _]]]]; try discriminate; inversion H; lia.
  - intros x. rewrite !in_app_iff, In_mid_alloc, !In_node_alloc, !In_end_alloc.
    intros [Hs [c ->]] [[c' [H _]]|[[ni [c' [H _]]]|[[Hs' [c' H]]|[c' [H _]]]]]; try discriminate.
    inversion H. apply Hs'. apply In_add_seen. auto.
Qed.

Lemma In_alloc bars : forall b0 seen u, Forall wf_skel bars -> In u (alloc b0 seen bars) ->
  match u with
  | UNode n c => ~ In n seen /\ In n (seen_after seen bars)
  | UOwn bi ni c => b0 <= bi < b0 + length bars /\ ni < sk_nn (nth (bi - b0) bars dsk) /\
                    unknown_of bi (nth (bi - b0) bars dsk) ni c = UOwn bi ni c
  end.
Proof.
  induction bars as [|s r IH]; intros b0 seen u Hwf; simpl; [tauto|].
  inversion Hwf as [|? ? Hs Hr]; subst.
  rewrite in_app_iff. intros [H|H].
  - apply In_bar_alloc in H; [|exact Hs]. destruct u as [n c|bi ni c].
    + destruct H as [H1 H2]. split; [exact H1|]. apply In_seen_after. auto.
    + destruct H as [-> [H1 H2]]. replace (b0 - b0) with 0 by lia. split; [lia|]. auto.
  - apply IH in H; [|exact Hr]. destruct u as [n c|bi ni c].
    + destruct H as [H1 H2]. split; [|exact H2]. intros Hin. apply H1. apply In_bar_seen. auto.
    + destruct H as [H1 H2]. split; [lia|].
      replace (bi - b0) with (S (bi - S b0)) by lia. exact H2.
Qed.

Lemma NoDup_alloc bars : forall b0 seen, Forall wf_skel bars -> NoDup (alloc b0 seen bars).
Proof.
  induction bars as [|s r IH]; intros b0 seen Hwf; simpl; [constructor|].
  inversion Hwf as [|? ? Hs Hr]; subst.
  apply NoDup_app_intro; [apply NoDup_bar_alloc; exact Hs | apply IH; exact Hr |].
  intros x H1 H2. apply In_bar_alloc in H1; [|exact Hs]. apply In_alloc in H2; [|exact Hr].
  destruct x as [n c|bi ni c].
  - destruct H1 as [_ H1]. destruct H2 as [H2 _]. contradiction.
  - destruct H1 as [-> _]. destruct H2 as [H2 _]. lia.
Qed.

(* ---------- the final state ---------- *)
Definition order (bars : list skel) : list unknown := alloc 0 [] bars.

Lemma master bars : Forall wf_skel bars ->
  NoDup (order bars) /\
  length (order bars) = dof_count bars /\
  node_ok (node_dofs bars) (order bars) /\
  map fst (node_dofs bars) = seen_after [] bars /\
  length (bar_dofs bars) = length bars /\
  (forall bi, bi < length bars -> length (nth bi (bar_dofs bars) []) = sk_nn (skel_at bars bi)) /\
  (forall bi ni c, valid bars bi ni ->
     nth_error (order bars) (num_at bars bi ni c) = Some (unknown_of bi (skel_at bars bi) ni c)).
Proof.
  intros Hwf. split; [apply NoDup_alloc; exact Hwf|].
  unfold order, num_at, valid, skel_at, dof_count, node_dofs, bar_dofs, assign.
  destruct (assign_from 0 [] bars) as [[k m] dss] eqn:E.
  assert (Hok : node_ok [] []) by (intros n d H; discriminate).
  destruct (assign_from_spec bars 0 [] 0 [] k m dss Hwf E eq_refl Hok) as [I1 [I2 [I3 [I4 I5]]]].
  simpl in *. fold dsk.
  split; [exact I1|]. split; [exact I3|]. split; [exact I2|]. split; [exact I4|]. split.
  - intros bi Hbi. apply (I5 bi Hbi).
  - intros bi ni c [Hbi Hni]. fold dsk in Hni. apply (I5 bi Hbi). exact Hni.
Qed.

Lemma idx_unique {A} (L : list A) i j u :
  NoDup L -> nth_error L i = Some u -> nth_error L j = Some u -> i = j.
Proof.
  intros Hnd Hi Hj. eapply NoDup_nth_error; eauto.
  - apply nth_error_Some. congruence.
  - congruence.
Qed.

Lemma is_end_node_seen bars n : is_end_node bars n <-> In n (seen_after [] bars).
Proof.
  rewrite In_seen_after. unfold is_end_node, skel_at. fold dsk. split.
  - intros [bi [Hbi H]]. right. exists (nth bi bars dsk). split; [apply nth_In; exact Hbi|exact H].
  - intros [[]|[s [Hs H]]]. destruct (In_nth _ _ dsk Hs) as [bi [Hbi He]].
    exists bi. split; [exact Hbi|]. rewrite He. exact H.
Qed.

Lemma end_node_lookup bars n : Forall wf_skel bars -> is_end_node bars n ->
  exists d, lookup n (node_dofs bars) = Some d.
Proof.
  intros Hwf H. destruct (master bars Hwf) as [_ [_ [_ [M _]]]].
  apply is_end_node_seen in H. rewrite <- M in H. apply mem_In in H.
  destruct (lookup n (node_dofs bars)) as [d|] eqn:E; [eauto|].
  apply lookup_mem in E. congruence.
Qed.

Lemma num_ok bars u k : Forall wf_skel bars -> exists_unknown bars u ->
  num_of_unknown bars u = Some k -> nth_error (order bars) k = Some u.
Proof.
  intros Hwf Hex Hn. destruct (master bars Hwf) as [_ [_ [M3 [_ [_ [_ M7]]]]]].
  destruct u as [n c|bi ni c]; simpl in *.
  - unfold node_num in Hn. destruct (lookup n (node_dofs bars)) as [d|] eqn:E; simpl in Hn; [|discriminate].
    inversion Hn; subst. eapply M3; eauto.
  - destruct Hex as [Hv Hu]. inversion Hn; subst. rewrite <- Hu. apply M7. exact Hv.
Qed.

Lemma has_num bars u : Forall wf_skel bars -> exists_unknown bars u ->
  exists k, num_of_unknown bars u = Some k.
Proof.
  intros Hwf Hex. destruct u as [n c|bi ni c]; simpl in *.
  - destruct (end_node_lookup bars n Hwf Hex) as [d Hd]. unfold node_num. rewrite Hd. simpl. eauto.
  - eauto.
Qed.

Lemma in_order_exists bars u : Forall wf_skel bars -> In u (order bars) -> exists_unknown bars u.
Proof.
  intros Hwf H. unfold order in H. apply In_alloc in H; [|exact Hwf].
  destruct u as [n c|bi ni c]; simpl.
  - apply is_end_node_seen. tauto.
  - rewrite Nat.sub_0_r in H. unfold valid, skel_at. fold dsk. destruct H as [H1 [H2 H3]].
    split; [split; [lia|exact H2]|exact H3].
Qed.

(* ---------- the C16 statements ---------- *)
Lemma assign_shape : forall bars, Forall wf_skel bars ->
  length (bar_dofs bars) = length bars /\
  forall bi, bi < length bars -> length (nth bi (bar_dofs bars) []) = sk_nn (skel_at bars bi).
Proof.
  intros bars Hwf. destruct (master bars Hwf) as [_ [_ [_ [_ [M5 [M6 _]]]]]]. split; assumption.
Qed.

Lemma number_is_unknowns : forall bars, Forall wf_skel bars ->
  forall bi ni c, valid bars bi ni ->
  num_of_unknown bars (unknown_of bi (skel_at bars bi) ni c) = Some (num_at bars bi ni c).
Proof.
  intros bars Hwf bi ni c Hv.
  destruct (master bars Hwf) as [M1 [_ [_ [_ [_ [_ M7]]]]]].
  pose proof (M7 bi ni c Hv) as Hn.
  assert (Hex : exists_unknown bars (unknown_of bi (skel_at bars bi) ni c)).
  { apply in_order_exists; [exact Hwf|]. eapply nth_error_In; eauto. }
  destruct (has_num bars _ Hwf Hex) as [k Hk].
  rewrite Hk. f_equal. eapply idx_unique; [exact M1| |exact Hn].
  apply num_ok; assumption.
Qed.

Lemma numbering_bijection : forall bars, Forall wf_skel bars ->
  (forall u k, exists_unknown bars u -> num_of_unknown bars u = Some k -> k < dof_count bars) /\
  (forall u v k, exists_unknown bars u -> exists_unknown bars v ->
     num_of_unknown bars u = Some k -> num_of_unknown bars v = Some k -> u = v) /\
  (forall k, k < dof_count bars -> exists u, exists_unknown bars u /\ num_of_unknown bars u = Some k) /\
  (forall n, is_end_node bars n -> exists d, lookup n (node_dofs bars) = Some d).
Proof.
  intros bars Hwf. destruct (master bars Hwf) as [M1 [M2 _]].
  split; [|split; [|split]].
  - intros u k Hex Hn. rewrite <- M2. apply nth_error_Some.
    rewrite (num_ok bars u k Hwf Hex Hn). discriminate.
  - intros u v k Hu Hv Hnu Hnv.
    pose proof (num_ok bars u k Hwf Hu Hnu) as H1.
    pose proof (num_ok bars v k Hwf Hv Hnv) as H2. congruence.
  - intros k Hk. rewrite <- M2 in Hk.
    destruct (nth_error (order bars) k) as [u|] eqn:E; [|apply nth_error_None in E; lia].
    exists u.
    assert (Hex : exists_unknown bars u).
    { apply in_order_exists; [exact Hwf|]. eapply nth_error_In; eauto. }
    split; [exact Hex|].
    destruct (has_num bars u Hwf Hex) as [k' Hk'].
    rewrite Hk'. f_equal. eapply idx_unique; [exact M1| |exact E].
    apply num_ok; assumption.
  - intros n Hn. apply end_node_lookup; assumption.
Qed.

Lemma same_number_iff_same_unknown : forall bars, Forall wf_skel bars ->
  forall bi ni c bj nj d, valid bars bi ni -> valid bars bj nj ->
  (num_at bars bi ni c = num_at bars bj nj d <->
   unknown_of bi (skel_at bars bi) ni c = unknown_of bj (skel_at bars bj) nj d).
Proof.
  intros bars Hwf bi ni c bj nj d Hi Hj.
  destruct (master bars Hwf) as [M1 [_ [_ [_ [_ [_ M7]]]]]].
  pose proof (M7 bi ni c Hi) as H1. pose proof (M7 bj nj d Hj) as H2.
  split; intros H.
  - rewrite H in H1. congruence.
  - rewrite H in H1. eapply idx_unique; eauto.
Qed.

Lemma rigid_bars_share : forall bars, Forall wf_skel bars ->
  forall bi bj, bi < length bars -> bj < length bars ->
  sk_l1 (skel_at bars bi) = rigid -> sk_l1 (skel_at bars bj) = rigid ->
  sk_n1 (skel_at bars bi) = sk_n1 (skel_at bars bj) ->
  nth 0 (nth bi (bar_dofs bars) []) (0, 0, 0) = nth 0 (nth bj (bar_dofs bars) []) (0, 0, 0).
Proof.
  intros bars Hwf bi bj Hbi Hbj Hli Hlj Hn.
  assert (Hwi : wf_skel (skel_at bars bi)).
  { rewrite Forall_forall in Hwf. apply Hwf. apply nth_In. exact Hbi. }
  assert (Hwj : wf_skel (skel_at bars bj)).
  { rewrite Forall_forall in Hwf. apply Hwf. apply nth_In. exact Hbj. }
  unfold wf_skel in Hwi, Hwj.
  assert (Hvi : valid bars bi 0) by (split; [exact Hbi | change (0 < sk_nn (skel_at bars bi)); lia]).
  assert (Hvj : valid bars bj 0) by (split; [exact Hbj | change (0 < sk_nn (skel_at bars bj)); lia]).
  assert (H : forall c, num_at bars bi 0 c = num_at bars bj 0 c).
  { intros c. apply same_number_iff_same_unknown; auto.
    unfold unknown_of. simpl. rewrite Hli, Hlj, Hn. destruct c; reflexivity. }
  pose proof (H Dx) as Hx. pose proof (H Dy) as Hy. pose proof (H Rz) as Hz.
  unfold num_at in Hx, Hy, Hz. simpl in Hx, Hy, Hz.
  destruct (nth 0 (nth bi (bar_dofs bars) []) (0, 0, 0)) as [[a1 a2] a3].
  destruct (nth 0 (nth bj (bar_dofs bars) []) (0, 0, 0)) as [[b1 b2] b3].
  simpl in *. congruence.
Qed.

(* ---------- order independence ---------- *)
Lemma unknown_of_cases s ni c :
  (exists n, forall b, unknown_of b s ni c = UNode n c) \/ (forall b, unknown_of b s ni c = UOwn b ni c).
Proof.
  unfold unknown_of.
  destruct (Nat.eqb ni 0); [destruct (lk_comp (sk_l1 s) c); eauto|].
  destruct (Nat.eqb ni (sk_nn s - 1)); [destruct (lk_comp (sk_l2 s) c); eauto|]. eauto.
Qed.

Lemma unknown_of_reindex i j i' j' s s' ni nj c d : (i = j <-> i' = j') ->
  (unknown_of i s ni c = unknown_of j s' nj d <-> unknown_of i' s ni c = unknown_of j' s' nj d).
Proof.
  intros Hij.
  destruct (unknown_of_cases s ni c) as [[n H1]|H1];
  destruct (unknown_of_cases s' nj d) as [[n' H2]|H2];
  rewrite !H1, !H2; split; intros H; try discriminate; try exact H.
  - inversion H; subst. f_equal. apply Hij. reflexivity.
  - inversion H; subst. f_equal. apply Hij. reflexivity.
Qed.

Lemma order_independent : forall bars bars' (p : list nat),
  Forall wf_skel bars -> Permutation p (seq 0 (length bars)) ->
  bars' = map (skel_at bars) p ->
  forall i j ni nj c d, i < length p -> j < length p ->
  valid bars' i ni -> valid bars' j nj ->
  (num_at bars' i ni c = num_at bars' j nj d <->
   num_at bars (nth i p 0) ni c = num_at bars (nth j p 0) nj d).
Proof.
  intros bars bars' p Hwf Hp Hb i j ni nj c d Hi Hj Hvi Hvj.
  assert (Hlt : forall x, In x p -> x < length bars).
  { intros x Hx. apply (Permutation_in _ Hp) in Hx. apply in_seq in Hx. lia. }
  assert (Hnd : NoDup p).
  { eapply Permutation_NoDup; [apply Permutation_sym; exact Hp|apply seq_NoDup]. }
  assert (Hsk : forall x, x < length p -> skel_at bars' x = skel_at bars (nth x p 0)).
  { intros x Hx. unfold skel_at at 1. fold dsk. subst bars'.
    rewrite (nth_indep _ dsk (skel_at bars 0)) by (rewrite map_length; exact Hx).
    apply map_nth. }
  assert (Hwf' : Forall wf_skel bars').
  { subst bars'. rewrite Forall_forall. intros s Hs. apply in_map_iff in Hs.
    destruct Hs as [y [<- Hy]]. rewrite Forall_forall in Hwf. apply Hwf.
    apply nth_In. apply Hlt. exact Hy. }
  assert (Hval : forall x n, x < length p -> valid bars' x n -> valid bars (nth x p 0) n).
  { intros x n Hx [_ Hn]. split; [apply Hlt; apply nth_In; exact Hx|].
    change (n < sk_nn (skel_at bars (nth x p 0))). rewrite <- (Hsk x Hx). exact Hn. }
  rewrite (same_number_iff_same_unknown bars' Hwf' i ni c j nj d Hvi Hvj).
  rewrite (same_number_iff_same_unknown bars Hwf _ ni c _ nj d (Hval i ni Hi Hvi) (Hval j nj Hj Hvj)).
  rewrite (Hsk i Hi), (Hsk j Hj).
  apply unknown_of_reindex. split.
  - intros ->. reflexivity.
  - intros H. apply (proj1 (NoDup_nth p 0) Hnd i j Hi Hj H).
Qed.
