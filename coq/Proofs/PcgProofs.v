(* The iterative solver (Gen/GenPcg.v: the loop of inkmath's preconditioned conjugate gradient as pinned by /repo's go.mod, with
   /repo's diagonal preconditioner, compared statement by statement on every run) keeps every unknown of a trivial equation
   (row = the identity row, right-hand side = 0: what MakeSystemOfEquations gives a supported number) at exactly zero, after any
   number of passes of its loop - the step lengths alpha and beta may be anything.  In floating point the same argument holds
   as long as alpha and beta are finite (0 + alpha * 0 = 0 exactly); when they are not, the answer holds a NaN and the
   acceptance test rejects it (C05_nonfinite_rejected). *)
From Coq Require Import ZArith QArith List Bool Arith Lia Setoid.
From Inkfem Require Import Num.NumOps Gen.GenPcg Model.Types Model.Slice Model.Dof Model.Assemble Proofs.AssembleProofs.
Import ListNotations.
Local Open Scope Q_scope.

Section Pcg.
Variable n : nat.
Variable A : nat -> nat -> Q.
Variable b : nat -> Q.

Definition trivial_equation (i : nat) : Prop :=
  (i < n)%nat /\ (forall j, (j < n)%nat -> A i j == if Nat.eqb i j then 1 else 0) /\ b i == 0.

Lemma sum_with_identity_row (g u : nat -> Q) (i : nat) : forall l, NoDup l ->
  (forall j, In j l -> g j == if Nat.eqb i j then 1 else 0) -> forall a,
  fold_left (fun acc j => acc + g j * u j) l a == a + (if existsb (Nat.eqb i) l then u i else 0).
Proof.
  induction l as [|j l IH]; intros ND Hg a; [cbn; ring|].
  inversion ND as [|? ? Hnin ND']; subst. cbn [fold_left existsb].
  rewrite (IH ND' (fun k Hk => Hg k (or_intror Hk))). rewrite (Hg j (or_introl eq_refl)).
  destruct (Nat.eqb i j) eqn:E.
  - apply Nat.eqb_eq in E. subst j. cbn [orb].
    assert (X : existsb (Nat.eqb i) l = false).
    { destruct (existsb (Nat.eqb i) l) eqn:X; [| reflexivity]. apply existsb_exists in X. destruct X as (x & Hx & Ex).
      apply Nat.eqb_eq in Ex. subst x. contradiction. }
    rewrite X. ring.
  - cbn [orb]. ring.
Qed.

Lemma in_range i : (i < n)%nat -> existsb (Nat.eqb i) (seq 0 n) = true.
Proof. intros H. apply existsb_exists. exists i. split; [apply in_seq; lia | apply Nat.eqb_refl]. Qed.

(* row i of A u is u i *)
Lemma mv_trivial (u : nat -> Q) (i : nat) : trivial_equation i -> pcg_mv n A u i == u i.
Proof.
  intros (Hi & Hrow & _). unfold pcg_mv.
  rewrite (sum_with_identity_row (A i) u i (seq 0 n) (seq_NoDup n 0)).
  - rewrite (in_range i Hi). ring.
  - intros j Hj. apply Hrow. apply in_seq in Hj. lia.
Qed.

Definition zero_at (i : nat) (s : pcg_state) : Prop := pcg_x s i == 0 /\ pcg_r s i == 0 /\ pcg_p s i == 0.

Lemma init_zero i : trivial_equation i -> zero_at i (pcg_init n A b).
Proof.
  intros T. pose proof (mv_trivial (fun _ => 0) i T) as M. destruct T as (_ & _ & Hb).
  unfold zero_at, pcg_init. cbn [pcg_x pcg_r pcg_p]. unfold pcg_pre.
  split; [reflexivity|]. split; [rewrite M, Hb; ring | rewrite M, Hb; ring].
Qed.

Lemma step_zero i s : trivial_equation i -> zero_at i s -> zero_at i (pcg_step n A s).
Proof.
  intros T (Hx & Hr & Hp). pose proof (mv_trivial (pcg_p s) i T) as M.
  assert (X : forall alpha, pcg_x s i + alpha * pcg_p s i == 0) by (intro; rewrite Hx, Hp; ring).
  assert (R : forall alpha, pcg_r s i - alpha * pcg_mv n A (pcg_p s) i == 0) by (intro; rewrite Hr, M, Hp; ring).
  assert (P : forall alpha beta, 1 / A i i * (pcg_r s i - alpha * pcg_mv n A (pcg_p s) i) + beta * pcg_p s i == 0)
    by (intros; rewrite Hr, M, Hp; ring).
  unfold zero_at, pcg_step. cbn [pcg_x pcg_r pcg_p]. unfold pcg_pre.
  split; [apply X|]. split; [apply R|]. apply P.
Qed.

Lemma iter_zero i : trivial_equation i -> forall k s, zero_at i s -> zero_at i (pcg_iter n A k s).
Proof. intros T. induction k as [|k IH]; intros s Z; [exact Z|]. cbn [pcg_iter]. apply IH, step_zero; assumption. Qed.

(* THEOREM: after any number of passes, the unknown of a trivial equation is exactly zero *)
Theorem trivial_equations_stay_exactly_zero (i k : nat) : trivial_equation i -> pcg_answer n A b k i == 0.
Proof. intros T. unfold pcg_answer. apply (iter_zero i T k), init_zero, T. Qed.

End Pcg.

(* the supported numbers of any assembled structure are trivial equations of the system handed to the solver *)
Theorem supported_numbers_stay_exactly_zero (n : nat) (cs : list (nat * nat * Q)) (fs : list (nat * Q)) (sup : list nat) (i k : nat) :
  (i < n)%nat -> is_supported sup i = true ->
  pcg_answer n (k_final cs sup) (f_final fs sup) k i == 0.
Proof.
  intros Hi Hs. apply trivial_equations_stay_exactly_zero. split; [exact Hi|]. split.
  - intros j _. destruct (proj1 (constraints_only_touch cs fs sup i j) Hs) as (H & _). exact H.
  - destruct (proj1 (constraints_only_touch cs fs sup i i) Hs) as (_ & _ & H). exact H.
Qed.

(* ---- the residual the loop carries along is the residual of its current x (exact arithmetic): what solutionGoodEnough
   tests against MaxError = error / 2 is f - K x itself ---- *)
Lemma fold_add (h : nat -> Q) : forall l s,
  fold_left (fun acc j => acc + h j) l s == s + fold_left (fun acc j => acc + h j) l 0.
Proof.
  induction l as [|j l IH]; intros s; [cbn; ring|]. cbn [fold_left]. rewrite (IH (s + h j)), (IH (0 + h j)). ring.
Qed.

Lemma sum_linear (g u v : nat -> Q) (a : Q) : forall l,
  fold_left (fun acc j => acc + g j * (u j + a * v j)) l 0 ==
  fold_left (fun acc j => acc + g j * u j) l 0 + a * fold_left (fun acc j => acc + g j * v j) l 0.
Proof.
  induction l as [|j l IH]; [cbn; ring|]. cbn [fold_left].
  pose proof (fold_add (fun j => g j * (u j + a * v j)) l (0 + g j * (u j + a * v j))) as H1.
  pose proof (fold_add (fun j => g j * u j) l (0 + g j * u j)) as H2.
  pose proof (fold_add (fun j => g j * v j) l (0 + g j * v j)) as H3.
  cbv beta in H1, H2, H3. rewrite H1, H2, H3, IH. ring.
Qed.

Section Residual.
Variable n : nat.
Variable A : nat -> nat -> Q.
Variable b : nat -> Q.

Lemma mv_linear (u v : nat -> Q) (a : Q) (i : nat) :
  pcg_mv n A (fun j => u j + a * v j) i == pcg_mv n A u i + a * pcg_mv n A v i.
Proof. unfold pcg_mv. apply sum_linear. Qed.

Definition true_residual (s : pcg_state) : Prop := forall i, pcg_r s i == b i - pcg_mv n A (pcg_x s) i.

Lemma init_residual : true_residual (pcg_init n A b).
Proof. intros i. unfold pcg_init. cbn [pcg_r pcg_x]. reflexivity. Qed.

Lemma step_residual s : true_residual s -> true_residual (pcg_step n A s).
Proof.
  intros H i. unfold pcg_step. cbn [pcg_r pcg_x].
  set (alpha := pcg_dot n (pcg_r s) (pcg_pre A (pcg_r s)) / pcg_dot n (pcg_p s) (pcg_mv n A (pcg_p s))).
  rewrite (mv_linear (pcg_x s) (pcg_p s) alpha i), (H i). ring.
Qed.

(* THEOREM: after any number of passes the vector r the loop tests is b - A x for the x it would return *)
Theorem the_residual_tested_is_the_residual_of_the_answer (k : nat) :
  forall i, pcg_r (pcg_iter n A k (pcg_init n A b)) i == b i - pcg_mv n A (pcg_answer n A b k) i.
Proof.
  unfold pcg_answer. generalize (pcg_init n A b) init_residual. induction k as [|k IH]; intros s H; [exact H|].
  cbn [pcg_iter]. apply IH, step_residual, H.
Qed.
End Residual.

