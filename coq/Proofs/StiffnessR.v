(* C20 over the reals: every angle, every length, every sub-span. *)
From Coq Require Import ZArith Reals Lra Lia List Field.
From Inkfem Require Import Num.NumOps Gen.GenStiffness Spec.Stiffness.
Import ListNotations.
Local Open Scope R_scope.


Section R.
Variables L c s t1 t2 E A I : R.
Hypothesis Hl : L * (t2 - t1) <> 0.
Hypothesis Hcs : c * c + s * s = 1.

Let K := stiff_gen (O:=ROps) L c s t1 t2 E A I.
Let l := L * (t2 - t1).

Lemma HL : L <> 0. Proof. intro H; apply Hl; rewrite H; ring. Qed.
Lemma Ht : t2 - t1 <> 0. Proof. intro H; apply Hl; rewrite H; ring. Qed.
Lemma Hs2 : s * s = 1 - c * c. Proof. lra. Qed.

Lemma stiff_symmetric_R : forall i j, (i < 6)%nat -> (j < 6)%nat -> entry K i j = entry K j i.
Proof.
  intros i j Hi Hj. pose proof HL. pose proof Ht.
  do 6 (destruct i as [|i]; [do 6 (destruct j as [|j]; [cbn; field; auto|]); exfalso; lia|]).
  exfalso; lia.
Qed.

Lemma stiff_rotated_local_R :
  K = rotated_local c s (E * A / l) (E * I / (l * l * l)) (E * I / (l * l)) (E * I / l).
Proof.
  pose proof HL. pose proof Ht. unfold K, l, stiff_gen, rotated_local. cbn.
  repeat (f_equal; try (field; auto)).
Qed.

Lemma stiff_rigid_tx_R : mv K rigid_tx = [0; 0; 0; 0; 0; 0].
Proof.
  pose proof HL. pose proof Ht. unfold K, stiff_gen, rigid_tx. cbn.
  repeat (f_equal; try (field; auto)).
Qed.

Lemma stiff_rigid_ty_R : mv K rigid_ty = [0; 0; 0; 0; 0; 0].
Proof.
  pose proof HL. pose proof Ht. unfold K, stiff_gen, rigid_ty. cbn.
  repeat (f_equal; try (field; auto)).
Qed.

Lemma stiff_rigid_rot_R : forall x y px py,
  mv K (rigid_rot c s l x y px py) = [0; 0; 0; 0; 0; 0].
Proof.
  intros. pose proof HL. pose proof Ht. pose proof Hs2 as Hs2.
  unfold K, l, stiff_gen, rigid_rot. cbn.
  repeat (f_equal; try (field [Hs2]; auto)).
Qed.

Lemma stiff_energy_R : forall x1 y1 r1 x2 y2 r2,
  let d := [x1; y1; r1; x2; y2; r2] in
  dot d (mv K d) =
    (E * A / l) * (form_a c s d * form_a c s d)
    + (E * I / (l * l * l)) * (3 * (form_b c s l d * form_b c s l d) + form_g l d * form_g l d).
Proof.
  intros. pose proof HL. pose proof Ht. pose proof Hs2 as Hs2.
  unfold d, K, l, stiff_gen, form_a, form_b, form_g. cbn.
  field [Hs2]; auto.
Qed.

End R.

(* Positive semi-definiteness for EA, EI >= 0 and a positive sub-span length. *)
Lemma stiff_psd_R : forall L c s t1 t2 E A I x1 y1 r1 x2 y2 r2,
  0 < L * (t2 - t1) -> c * c + s * s = 1 -> 0 <= E * A -> 0 <= E * I ->
  let d := [x1; y1; r1; x2; y2; r2] in
  0 <= dot d (mv (stiff_gen (O:=ROps) L c s t1 t2 E A I) d).
Proof.
  intros L c s t1 t2 E A I x1 y1 r1 x2 y2 r2 Hl Hcs HEA HEI d.
  unfold d. rewrite stiff_energy_R by (auto; lra).
  set (l := L * (t2 - t1)) in *. clearbody l.
  assert (0 < l * l * l) by (repeat apply Rmult_lt_0_compat; assumption).
  assert (0 <= E * A / l) by (apply Rmult_le_pos; [assumption | left; apply Rinv_0_lt_compat; assumption]).
  assert (0 <= E * I / (l * l * l)) by (apply Rmult_le_pos; [assumption | left; apply Rinv_0_lt_compat; assumption]).
  apply Rplus_le_le_0_compat; apply Rmult_le_pos; try assumption.
  - apply Rle_0_sqr.
  - apply Rplus_le_le_0_compat; [apply Rmult_le_pos; [lra | apply Rle_0_sqr] | apply Rle_0_sqr].
Qed.
