(* The bound solve hands to its acceptance test and the error it reports with the displacements
   (Gen/GenAccept.v, regenerated from computeGlobalDisplacements of process/solve_displacements.go)
   are the --error option itself, for every value of it; so they convert with the force unit. *)
From Coq Require Import ZArith QArith Qabs List Bool Lia Lqa.
From Inkfem Require Import Num.NumOps Gen.GenAccept.
Import ListNotations.

Lemma accept_bound_units : forall phi e : Q, accept_bound (O:=QOps) (phi * e) == phi * accept_bound (O:=QOps) e.
Proof. intros phi e. unfold accept_bound. cbn. reflexivity. Qed.

Lemma accept_bound_is_the_option : forall e : Q, accept_bound (O:=QOps) e == e.
Proof. intros e. unfold accept_bound. reflexivity. Qed.

Lemma reported_error_is_the_option : forall e : Q, reported_error (O:=QOps) e == e.
Proof. intros e. unfold reported_error. reflexivity. Qed.
