(* C07 for a whole structure of the model turned about the origin (cosine cr, sine sr), loads given in the bars' own axes,
   supports and links that treat dx and dy alike: row i of the new system is the turned combination of the old rows of the
   node's two translation equations, in the turned unknowns.  Hence the turned displacements solve the new system. *)
From Coq Require Import ZArith QArith Qabs List Bool Arith Lia Field Lqa Setoid Morphisms.
From Inkfem Require Import Num.NumOps Gen.GenConsts Gen.GenStiffness Gen.GenLoads Spec.Stiffness Spec.Superposition Model.Types Model.Slice Model.Loads Model.Dof
  Model.Assemble Model.Recover Spec.Resultant Proofs.LoadsProofs Proofs.RecoverProofs Proofs.FieldProofs Proofs.AssembleProofs
  Proofs.SystemProofs Proofs.UnitsBar Proofs.LinearStructure Proofs.UnitsStructure.
Import ListNotations.
Local Open Scope Q_scope.

Section Turned.
Variables cr sr : Q.
Hypothesis Hu : cr * cr + sr * sr == 1.
(* what each equation number stands for: 0 = dx, 1 = dy, 2 = rz, and the other translation number of the same point *)
Variable kind : nat -> nat.
Variable pr : nat -> nat.
Hypothesis pr_x : forall i, kind i = 0%nat -> kind (pr i) = 1%nat /\ pr (pr i) = i.
Hypothesis pr_y : forall i, kind i = 1%nat -> kind (pr i) = 0%nat /\ pr (pr i) = i.

Definition paired (d : dof3) : Prop :=
  kind (fst (fst d)) = 0%nat /\ kind (snd (fst d)) = 1%nat /\ kind (snd d) = 2%nat /\ pr (fst (fst d)) = snd (fst d) /\ pr (snd (fst d)) = fst (fst d).

(* the turned combination of a quantity given per equation number *)
Definition turn (g : nat -> Q) (i : nat) : Q :=
  match kind i with
  | 0%nat => cr * g i - sr * g (pr i)
  | 1%nat => sr * g (pr i) + cr * g i
  | _ => g i
  end.
Definition turn_u (n : nat) (u : list Q) : list Q := map (turn (uget u)) (seq 0 n).
Lemma uget_turn n u j : (j < n)%nat -> uget (turn_u n u) j = turn (uget u) j.
Proof. intros Hj. unfold turn_u. unfold uget at 1. cbn [n0 QOps]. apply (nth_map_seq (turn (uget u)) n j Hj). Qed.

Definition turned_slice (sl : slice) (na' nb' : pnode Q) : slice :=
  {| s_b := turned_bar cr sr (s_b sl); s_na := na'; s_nb := nb'; s_da := s_da sl; s_db := s_db sl |}.

Lemma sr2 : sr * sr == 1 - cr * cr.
Proof. rewrite <- Hu. ring. Qed.

(* ---- one finite element ---- *)
Lemma s_force_turned n (u : list Q) (sl : slice) (na' nb' : pnode Q) :
  pn_t na' = pn_t (s_na sl) -> pn_t nb' = pn_t (s_nb sl) ->
  no_tiny (s_k sl) -> no_tiny (s_k (turned_slice sl na' nb')) ->
  ~ b_L (s_b sl) * (pn_t (s_nb sl) - pn_t (s_na sl)) == 0 ->
  paired (s_da sl) -> paired (s_db sl) -> nums_below n sl ->
  (forall j, (j < n)%nat -> kind j <> 2%nat -> (pr j < n)%nat) ->
  let F := s_force u sl in
  let F' := s_force (turn_u n u) (turned_slice sl na' nb') in
  F' 0%nat == cr * F 0%nat - sr * F 1%nat /\ F' 1%nat == sr * F 0%nat + cr * F 1%nat /\ F' 2%nat == F 2%nat /\
  F' 3%nat == cr * F 3%nat - sr * F 4%nat /\ F' 4%nat == sr * F 3%nat + cr * F 4%nat /\ F' 5%nat == F 5%nat.
Proof.
  intros Ta Tb Hk Hk' Hl (A1 & A2 & A3 & A4 & A5) (B1 & B2 & B3 & B4 & B5) Hn Hpr F F'.
  assert (HL : ~ b_L (s_b sl) == 0) by (intro H; apply Hl; rewrite H; ring).
  assert (Ht : ~ pn_t (s_nb sl) - pn_t (s_na sl) == 0) by (intro H; apply Hl; rewrite H; ring).
  unfold F, F'.
  rewrite !(s_force_unfiltered (turn_u n u) (turned_slice sl na' nb')) by (exact Hk' || lia).
  rewrite !(s_force_unfiltered u sl) by (exact Hk || lia).
  unfold nums_below, s_nums, slice_numbers, d3_list in Hn.
  destruct sl as [b na nb [[a1 a2] a3] [[b1 b2] b3]]. cbn [s_b s_na s_nb s_da s_db fst snd app] in *.
  assert (N : (a1 < n /\ a2 < n /\ a3 < n /\ b1 < n /\ b2 < n /\ b3 < n)%nat).
  { repeat match goal with H : Forall _ (_ :: _) |- _ => inversion H; clear H; subst end. repeat split; assumption. }
  destruct N as (N1 & N2 & N3 & N4 & N5 & N6).
  unfold turned_slice, s_k, s_nums, slice_numbers, d3_list. cbn [s_b s_na s_nb s_da s_db fst snd app turned_bar b_L b_c b_s b_E b_A b_I].
  rewrite Ta, Tb.
  unfold qsum. cbn [seq map fold_right nth].
  rewrite !uget_turn by assumption.
  unfold turn. rewrite A1, A2, A3, B1, B2, B3, A4, A5, B4, B5.
  unfold stiff_gen, entry. cbn [nth nadd nmul nsub ndiv nopp nofZ n0 n1 QOps].
  generalize (uget u a1) (uget u a2) (uget u a3) (uget u b1) (uget u b2) (uget u b3). intros g1 g2 g3 g4 g5 g6.
  pose proof sr2 as S2.
  repeat split; field [S2]; auto.
Qed.

(* ---- six terms placed at the numbers of two paired nodes ---- *)
Lemma eqb_kind a i : kind a <> kind i -> Nat.eqb a i = false.
Proof. intros H. apply Nat.eqb_neq. intro E. apply H. rewrite E. reflexivity. Qed.

Lemma eqb_partner_x a1 a2 i : kind a1 = 0%nat -> pr a1 = a2 -> pr a2 = a1 -> kind i = 0%nat -> Nat.eqb a2 (pr i) = Nat.eqb a1 i.
Proof.
  intros K1 P1 P2 Ki. destruct (Nat.eqb_spec a1 i) as [E | NE].
  - apply Nat.eqb_eq. rewrite <- E. symmetry. exact P1.
  - apply Nat.eqb_neq. intro E. apply NE. rewrite <- P2, E. apply (pr_x i Ki).
Qed.
Lemma eqb_partner_y a1 a2 i : kind a2 = 1%nat -> pr a1 = a2 -> pr a2 = a1 -> kind i = 1%nat -> Nat.eqb a1 (pr i) = Nat.eqb a2 i.
Proof.
  intros K2 P1 P2 Ki. destruct (Nat.eqb_spec a2 i) as [E | NE].
  - apply Nat.eqb_eq. rewrite <- E. symmetry. exact P2.
  - apply Nat.eqb_neq. intro E. apply NE. rewrite <- P1, E. apply (pr_y i Ki).
Qed.

Lemma six_turn (a1 a2 a3 b1 b2 b3 : nat) (v0 v1 v2 v3 v4 v5 w0 w1 w2 w3 w4 w5 : Q) i :
  paired (a1, a2, a3) -> paired (b1, b2, b3) ->
  w0 == cr * v0 - sr * v1 -> w1 == sr * v0 + cr * v1 -> w2 == v2 -> w3 == cr * v3 - sr * v4 -> w4 == sr * v3 + cr * v4 -> w5 == v5 ->
  fraw_at [(a1, w0); (a2, w1); (a3, w2); (b1, w3); (b2, w4); (b3, w5)] i ==
  turn (fun j => fraw_at [(a1, v0); (a2, v1); (a3, v2); (b1, v3); (b2, v4); (b3, v5)] j) i.
Proof.
  intros (A1 & A2 & A3 & A4 & A5) (B1 & B2 & B3 & B4 & B5) W0 W1 W2 W3 W4 W5. cbn [fst snd] in *.
  unfold turn. destruct (kind i) as [|[|k]] eqn:Ki; cbv beta; rewrite !fraw_at_cons, !fraw_at_nil; cbn [fst snd].
  - (* a dx equation *)
    rewrite (eqb_kind a2 i), (eqb_kind a3 i), (eqb_kind b2 i), (eqb_kind b3 i) by congruence.
    destruct (pr_x i Ki) as (Kp & _).
    rewrite (eqb_kind a1 (pr i)), (eqb_kind a3 (pr i)), (eqb_kind b1 (pr i)), (eqb_kind b3 (pr i)) by congruence.
    rewrite (eqb_partner_x a1 a2 i A1 A4 A5 Ki), (eqb_partner_x b1 b2 i B1 B4 B5 Ki).
    destruct (Nat.eqb a1 i), (Nat.eqb b1 i); rewrite ?W0, ?W3; ring.
  - (* a dy equation *)
    rewrite (eqb_kind a1 i), (eqb_kind a3 i), (eqb_kind b1 i), (eqb_kind b3 i) by congruence.
    destruct (pr_y i Ki) as (Kp & _).
    rewrite (eqb_kind a2 (pr i)), (eqb_kind a3 (pr i)), (eqb_kind b2 (pr i)), (eqb_kind b3 (pr i)) by congruence.
    rewrite (eqb_partner_y a1 a2 i A2 A4 A5 Ki), (eqb_partner_y b1 b2 i B2 B4 B5 Ki).
    destruct (Nat.eqb a2 i), (Nat.eqb b2 i); rewrite ?W1, ?W4; ring.
  - (* a rotation equation (or a number that is none of the three) *)
    rewrite (eqb_kind a1 i), (eqb_kind a2 i), (eqb_kind b1 i), (eqb_kind b2 i) by congruence.
    destruct (Nat.eqb a3 i), (Nat.eqb b3 i); rewrite ?W2, ?W5; ring.
Qed.

(* ---- slices, bars, structures ---- *)
Definition good_slice (n : nat) (sl : slice) : Prop :=
  no_tiny (s_k sl) /\ no_tiny (s_k (turned_slice sl (s_na sl) (s_nb sl))) /\
  ~ b_L (s_b sl) * (pn_t (s_nb sl) - pn_t (s_na sl)) == 0 /\ paired (s_da sl) /\ paired (s_db sl) /\ nums_below n sl.
Definition slice_rel (sl sl' : slice) : Prop :=
  sl' = turned_slice sl (s_na sl') (s_nb sl') /\ pn_t (s_na sl') = pn_t (s_na sl) /\ pn_t (s_nb sl') = pn_t (s_nb sl).

Lemma s_k_turned sl na' nb' : pn_t na' = pn_t (s_na sl) -> pn_t nb' = pn_t (s_nb sl) ->
  s_k (turned_slice sl na' nb') = s_k (turned_slice sl (s_na sl) (s_nb sl)).
Proof. intros Ta Tb. unfold s_k, turned_slice. cbn [s_b s_na s_nb]. rewrite Ta, Tb. reflexivity. Qed.

Lemma s_fterms_turned n u sl sl' i : (forall j, (j < n)%nat -> kind j <> 2%nat -> (pr j < n)%nat) ->
  good_slice n sl -> slice_rel sl sl' ->
  fraw_at (s_fterms (turn_u n u) sl') i == turn (fun j => fraw_at (s_fterms u sl) j) i.
Proof.
  intros Hpr (K1 & K2 & Hl & Ka & Kb & Hn) (E & Ta & Tb). rewrite E.
  assert (K2' : no_tiny (s_k (turned_slice sl (s_na sl') (s_nb sl')))) by (rewrite (s_k_turned sl _ _ Ta Tb); exact K2).
  destruct (s_force_turned n u sl (s_na sl') (s_nb sl') Ta Tb K1 K2' Hl Ka Kb Hn Hpr) as (F0 & F1 & F2 & F3 & F4 & F5).
  unfold s_fterms. cbn [seq map].
  assert (Hnums : s_nums (turned_slice sl (s_na sl') (s_nb sl')) = s_nums sl) by reflexivity. rewrite Hnums.
  destruct sl as [b na nb [[a1 a2] a3] [[b1 b2] b3]]. unfold s_nums, slice_numbers, d3_list. cbn [s_da s_db fst snd app nth] in *.
  apply six_turn; assumption.
Qed.

Lemma turn_add g h i : turn (fun j => g j + h j) i == turn g i + turn h i.
Proof. unfold turn. destruct (kind i) as [|[|k]]; ring. Qed.
Lemma turn_ext g h i : (forall j, g j == h j) -> turn g i == turn h i.
Proof. intros H. unfold turn. destruct (kind i) as [|[|k]]; rewrite ?(H i), ?(H (pr i)); reflexivity. Qed.
Lemma turn_zero i : turn (fun _ => 0) i == 0.
Proof. unfold turn. destruct (kind i) as [|[|k]]; ring. Qed.

Lemma k_terms_turned n u : (forall j, (j < n)%nat -> kind j <> 2%nat -> (pr j < n)%nat) ->
  forall sls sls', Forall (good_slice n) sls -> Forall2 slice_rel sls sls' -> forall i,
  fraw_at (flat_map (s_fterms (turn_u n u)) sls') i == turn (fun j => fraw_at (flat_map (s_fterms u) sls) j) i.
Proof.
  intros Hpr sls sls' Hg Hr. induction Hr as [|sl sl' r r' H _ IH]; intros i; cbn [flat_map].
  - rewrite fraw_at_nil. symmetry. transitivity (turn (fun _ => 0) i); [apply turn_ext; intro j; apply fraw_at_nil | apply turn_zero].
  - inversion Hg as [|? ? G1 G2]; subst. rewrite fraw_at_app, (IH G2 i), (s_fterms_turned n u sl sl' i Hpr G1 H).
    rewrite <- turn_add. apply turn_ext. intro j. rewrite fraw_at_app. reflexivity.
Qed.

Lemma turn_ext2 g h i : g i == h i -> (kind i <> 2%nat -> g (pr i) == h (pr i)) -> turn g i == turn h i.
Proof.
  intros H1 H2. unfold turn. destruct (kind i) as [|[|k]] eqn:Ki.
  - rewrite H1, H2 by congruence. reflexivity.
  - rewrite H1, H2 by congruence. reflexivity.
  - exact H1.
Qed.

(* ---- the load vector turns ---- *)
Lemma three_turn (a1 a2 a3 : nat) (v0 v1 v2 w0 w1 w2 : Q) i : paired (a1, a2, a3) ->
  w0 == cr * v0 - sr * v1 -> w1 == sr * v0 + cr * v1 -> w2 == v2 ->
  fraw_at [(a1, w0); (a2, w1); (a3, w2)] i == turn (fun j => fraw_at [(a1, v0); (a2, v1); (a3, v2)] j) i.
Proof.
  intros (A1 & A2 & A3 & A4 & A5) W0 W1 W2. cbn [fst snd] in *.
  unfold turn. destruct (kind i) as [|[|k]] eqn:Ki; cbv beta; rewrite !fraw_at_cons, !fraw_at_nil; cbn [fst snd].
  - rewrite (eqb_kind a2 i), (eqb_kind a3 i) by congruence.
    destruct (pr_x i Ki) as (Kp & _).
    rewrite (eqb_kind a1 (pr i)), (eqb_kind a3 (pr i)) by congruence.
    rewrite (eqb_partner_x a1 a2 i A1 A4 A5 Ki).
    destruct (Nat.eqb a1 i); rewrite ?W0; ring.
  - rewrite (eqb_kind a1 i), (eqb_kind a3 i) by congruence.
    destruct (pr_y i Ki) as (Kp & _).
    rewrite (eqb_kind a2 (pr i)), (eqb_kind a3 (pr i)) by congruence.
    rewrite (eqb_partner_y a1 a2 i A2 A4 A5 Ki).
    destruct (Nat.eqb a2 i); rewrite ?W1; ring.
  - rewrite (eqb_kind a1 i), (eqb_kind a2 i) by congruence.
    destruct (Nat.eqb a3 i); rewrite ?W2; ring.
Qed.

Definition node_same (nd nd' : pnode Q) : Prop :=
  pn_t nd' = pn_t nd /\ tor_eq (pn_ext nd') (pn_ext nd) /\ tor_eq (pn_left nd') (pn_left nd) /\ tor_eq (pn_right nd') (pn_right nd).
Definition pbar_turned (p p' : pbar Q) : Prop :=
  pb_bar p' = turned_bar cr sr (pb_bar p) /\ pb_dofs p' = pb_dofs p /\ Forall2 node_same (pb_nodes p) (pb_nodes p').

Lemma net_same' nd nd' : node_same nd nd' -> tor_eq (pn_net nd') (pn_net nd).
Proof.
  intros (_ & (E1 & E2 & E3) & (L1 & L2 & L3) & (R1 & R2 & R3)).
  unfold tor_eq, pn_net, tor_add, t_fx, t_fy, t_mz in *. cbn [fst snd nadd QOps] in *.
  rewrite E1, E2, E3, L1, L2, L3, R1, R2, R3. repeat split; reflexivity.
Qed.

Lemma node_fterms_turned (b : bar Q) nd nd' d i : node_same nd nd' -> paired d ->
  fraw_at (node_fterms (turned_bar cr sr b) (nd', d)) i == turn (fun j => fraw_at (node_fterms b (nd, d)) j) i.
Proof.
  intros Hn Hp. destruct (net_same' nd nd' Hn) as (H1 & H2 & H3).
  unfold node_fterms. cbn [turned_bar b_c b_s]. destruct d as [[a1 a2] a3]. cbn [fst snd] in *.
  apply three_turn; [exact Hp | | |];
    unfold to_global, t_fx, t_fy, t_mz in *; cbn [fst snd nadd nmul nsub QOps] in *; rewrite ?H1, ?H2, ?H3; ring.
Qed.

Lemma bar_fterms_turned p p' i : pbar_turned p p' -> Forall paired (pb_dofs p) ->
  fraw_at (bar_fterms p') i == turn (fun j => fraw_at (bar_fterms p) j) i.
Proof.
  intros (Hb & Hd & Hn) Hk. unfold bar_fterms. rewrite Hb, Hd. revert Hk. generalize (pb_dofs p) as ds.
  induction Hn as [|m m' r r' Hm _ IH]; intros ds Hk.
  - cbn [combine flat_map]. rewrite fraw_at_nil. symmetry. transitivity (turn (fun _ => 0) i); [apply turn_ext; intro j; apply fraw_at_nil | apply turn_zero].
  - destruct ds as [|d ds]; [cbn [combine flat_map]; rewrite fraw_at_nil; symmetry; transitivity (turn (fun _ => 0) i); [apply turn_ext; intro j; apply fraw_at_nil | apply turn_zero]|].
    inversion Hk as [|? ? K1 K2]; subst. cbn [combine flat_map]. rewrite fraw_at_app, (IH ds K2), (node_fterms_turned (pb_bar p) m m' d i Hm K1).
    rewrite <- turn_add. apply turn_ext. intro j. rewrite fraw_at_app. reflexivity.
Qed.

Lemma all_fterms_turned : forall S S', Forall2 pbar_turned S S' -> Forall (fun p => Forall paired (pb_dofs p)) S -> forall i,
  fraw_at (all_fterms S') i == turn (fun j => fraw_at (all_fterms S) j) i.
Proof.
  unfold all_fterms. induction 1 as [|p p' r r' H _ IH]; intros Hk i; cbn [flat_map].
  - rewrite fraw_at_nil. symmetry. transitivity (turn (fun _ => 0) i); [apply turn_ext; intro j; apply fraw_at_nil | apply turn_zero].
  - inversion Hk as [|? ? K1 K2]; subst. rewrite fraw_at_app, (IH K2 i), (bar_fterms_turned p p' i H K1).
    rewrite <- turn_add. apply turn_ext. intro j. rewrite fraw_at_app. reflexivity.
Qed.

(* ---- slices of related bars ---- *)
Lemma slices_from_turned b : forall (nodes nodes' : list (pnode Q)) (ds : list dof3) na na' da,
  pn_t na' = pn_t na -> Forall2 node_same nodes nodes' ->
  Forall2 slice_rel (slices_from b na da (combine nodes ds)) (slices_from (turned_bar cr sr b) na' da (combine nodes' ds)).
Proof.
  induction nodes as [|m nodes IH]; intros nodes' ds na na' da Ta H; inversion H as [|? m' ? nodes'' Hm Hr]; subst; [constructor|].
  destruct ds as [|d ds]; [constructor|]. cbn [combine slices_from].
  destruct Hm as (Tm & _). constructor; [| apply IH; assumption].
  unfold slice_rel, turned_slice. cbn [s_b s_na s_nb s_da s_db]. repeat split; assumption.
Qed.
Lemma bar_slices_turned p p' : pbar_turned p p' -> Forall2 slice_rel (bar_slices p) (bar_slices p').
Proof.
  intros (Hb & Hd & Hn). unfold bar_slices. rewrite Hb, Hd.
  destruct Hn as [|m m' r r' (Tm & _) Hr]; [constructor|].
  destruct (pb_dofs p) as [|d ds]; [constructor|]. cbn [combine]. apply slices_from_turned; assumption.
Qed.
Lemma all_slices_turned : forall S S', Forall2 pbar_turned S S' -> Forall2 slice_rel (all_slices S) (all_slices S').
Proof.
  unfold all_slices. induction 1 as [|p p' r r' H _ IH]; cbn [flat_map]; [constructor|].
  apply Forall2_app'; [apply bar_slices_turned; exact H | exact IH].
Qed.

(* THEOREM (C07, whole structure): the turned displacements solve the system of the turned structure *)
Theorem turned_displacements_solve_the_turned_system (n : nat) (S S' : list (pbar Q)) (sup : list nat) (u : list Q) :
  Forall2 pbar_turned S S' ->
  Forall (good_slice n) (all_slices S) -> Forall (fun p => Forall paired (pb_dofs p)) S ->
  (forall j, (j < n)%nat -> kind j <> 2%nat -> (pr j < n)%nat /\ is_supported sup (pr j) = is_supported sup j) ->
  (forall i, (i < n)%nat -> is_supported sup i = false -> row_empty (all_contribs S) i = false /\ row_empty (all_contribs S') i = false) ->
  solves n S sup u -> solves n S' sup (turn_u n u).
Proof.
  intros HS Hg Hk Hiso Hrows Hs i Hi. rewrite row_times_fsum. unfold f_final.
  assert (Hpr : forall j, (j < n)%nat -> kind j <> 2%nat -> (pr j < n)%nat) by (intros j Hj Kj; apply (Hiso j Hj Kj)).
  assert (Usup : forall j, (j < n)%nat -> is_supported sup j = true -> uget (turn_u n u) j == 0).
  { intros j Hj Ej. rewrite (uget_turn n u j Hj). unfold turn.
    pose proof (solves_supported n S sup u j Hs Hj Ej) as Z.
    destruct (kind j) as [|[|k]] eqn:Kj.
    - destruct (Hiso j Hj ltac:(congruence)) as (Pn & Ps). rewrite Z, (solves_supported n S sup u (pr j) Hs Pn ltac:(congruence)). ring.
    - destruct (Hiso j Hj ltac:(congruence)) as (Pn & Ps). rewrite Z, (solves_supported n S sup u (pr j) Hs Pn ltac:(congruence)). ring.
    - exact Z. }
  destruct (is_supported sup i) eqn:Esup.
  - cbn [n0 QOps].
    transitivity (fsum n (fun j => (if Nat.eqb i j then 1 else 0) * uget (turn_u n u) j)).
    + apply fsum_ext. intros j _. unfold k_final. rewrite Esup. cbn [orb]. unfold delta. cbn [n0 n1 QOps]. reflexivity.
    + rewrite (fsum_delta n i (uget (turn_u n u)) Hi). apply Usup; assumption.
  - destruct (Hrows i Hi Esup) as (R & R').
    assert (Hn : Forall (nums_below n) (all_slices S)) by (eapply Forall_impl; [| exact Hg]; intros sl G; apply G).
    assert (Hrel : Forall2 slice_rel (all_slices S) (all_slices S')) by (apply all_slices_turned; exact HS).
    assert (Hn' : Forall (nums_below n) (all_slices S')).
    { clear -Hn Hrel. induction Hrel as [|sl sl' r r' (E & _) _ IH]; [constructor|].
      inversion Hn as [|? ? N1 N2]; subst. constructor; [| apply IH; exact N2]. rewrite E. exact N1. }
    transitivity (fsum n (fun j => kraw_at (all_contribs S') i j * uget (turn_u n u) j)).
    + apply fsum_ext. intros j Hj. unfold k_final. rewrite Esup, R'. cbn [orb].
      destruct (is_supported sup j) eqn:Ej; [| reflexivity]. rewrite (Usup j Hj Ej). ring.
    + rewrite (raw_row_is_element_forces n (turn_u n u) S' i Hn'). unfold k_terms.
      rewrite (k_terms_turned n u Hpr _ _ Hg Hrel i). fold (k_terms u S).
      rewrite (all_fterms_turned S S' HS Hk i).
      apply turn_ext2.
      * apply (row_is_equilibrium n S sup u i Hn Hs Hi Esup R).
      * intros Ki. destruct (Hiso i Hi Ki) as (Pn & Ps).
        assert (Ep : is_supported sup (pr i) = false) by congruence.
        apply (row_is_equilibrium n S sup u (pr i) Hn Hs Pn Ep). apply (Hrows (pr i) Pn Ep).
Qed.

(* ---- for the structures the model builds: bars sliced by preprocess_bar without own weight, loads in the bars' own axes ---- *)
Lemma prepared_turned : forall bs ds, Forall (fun b => own_axes_only b = true) bs ->
  Forall2 pbar_turned (prepared_all false bs ds) (prepared_all false (map (turned_bar cr sr) bs) ds).
Proof.
  unfold prepared_all. induction bs as [|b bs IH]; intros ds Ho; [constructor|].
  destruct ds as [|d ds]; [constructor|]. inversion Ho as [|? ? O1 O2]; subst. cbn [map combine fst snd]. constructor; [| apply IH; exact O2].
  unfold pbar_turned, prepared. cbn [pb_bar pb_nodes pb_dofs]. split; [reflexivity|]. split; [reflexivity|].
  eapply Forall2_weaken; [| exact (turned_bar_is_sliced_alike cr sr b Hu O1)].
  intros nd nd' (T & _ & _ & E & L & R). split; [exact T|]. split; [exact E|]. split; [exact L | exact R].
Qed.

Theorem turned_structure (n : nat) (bs : list (bar Q)) (ds : list (list dof3)) (sup : list nat) (u : list Q) :
  let S := prepared_all false bs ds in
  let S' := prepared_all false (map (turned_bar cr sr) bs) ds in
  Forall (fun b => own_axes_only b = true) bs ->
  Forall (good_slice n) (all_slices S) -> Forall (Forall paired) ds ->
  (forall j, (j < n)%nat -> kind j <> 2%nat -> (pr j < n)%nat /\ is_supported sup (pr j) = is_supported sup j) ->
  (forall i, (i < n)%nat -> is_supported sup i = false -> row_empty (all_contribs S) i = false /\ row_empty (all_contribs S') i = false) ->
  solves n S sup u -> solves n S' sup (turn_u n u).
Proof.
  intros S S' Ho Hg Hk Hiso Hrows Hs.
  apply (turned_displacements_solve_the_turned_system n S S' sup u (prepared_turned bs ds Ho) Hg); try assumption.
  unfold S, prepared_all. clear -Hk. revert ds Hk. induction bs as [|b bs IH]; intros ds Hk; [constructor|].
  destruct ds as [|d ds]; [constructor|]. inversion Hk as [|? ? K1 K2]; subst. cbn [map combine fst snd]. constructor; [exact K1 | apply IH; exact K2].
Qed.

End Turned.
