(* Proofs for C13: every interleaving of solve -p with its background writer. *)
From Coq Require Import Arith List Bool Lia.
From Inkfem Require Import Model.Cli.
Import ListNotations.

Lemma fstate_eqb_eq a b : fstate_eqb a b = true -> a = b.
Proof. destruct a, b; cbn; congruence. Qed.
Lemma outcome_eqb_eq a b : outcome_eqb a b = true -> a = b.
Proof. destruct a, b; cbn; congruence. Qed.

Lemma state_eqb_eq a b : state_eqb a b = true -> a = b.
Proof.
  unfold state_eqb. intros H. repeat (apply andb_prop in H; destruct H as [H ?]).
  destruct a, b; cbn in *.
  repeat match goal with
  | H : Nat.eqb _ _ = true |- _ => apply Nat.eqb_eq in H
  | H : fstate_eqb _ _ = true |- _ => apply fstate_eqb_eq in H
  | H : outcome_eqb _ _ = true |- _ => apply outcome_eqb_eq in H
  | H : Bool.eqb _ _ = true |- _ => apply Bool.eqb_prop in H
  end. subst. reflexivity.
Qed.

Lemma mem_In s l : mem s l = true -> In s l.
Proof.
  unfold mem. intros H. apply existsb_exists in H as (x & Hx & E). apply state_eqb_eq in E. subst. exact Hx.
Qed.

(* a set that contains the initial state and is closed under the step relation contains every
   reachable state: whatever holds on the whole set holds in every interleaving *)
Theorem reachable_in_closed (k : skeleton) (s0 : state) (l : list state) :
  In s0 l -> closed k l = true -> forall s, reachable k s0 s -> In s l.
Proof.
  intros H0 Hc s Hr. induction Hr as [|s s' _ IH Hs]; [exact H0|].
  unfold closed in Hc. rewrite forallb_forall in Hc. specialize (Hc s IH). rewrite forallb_forall in Hc.
  apply mem_In. apply Hc. exact Hs.
Qed.

Corollary invariant_by_exploration (k : skeleton) (s0 : state) (l : list state) (P : state -> bool) :
  In s0 l -> closed k l = true -> forallb P l = true -> forall s, reachable k s0 s -> P s = true.
Proof.
  intros H0 Hc Hp s Hr. rewrite forallb_forall in Hp. apply Hp. eapply reachable_in_closed; eauto.
Qed.

(* the skeleton of the unchanged code *)
Definition good : skeleton :=
  {| sk_add_before_spawn := true; sk_writer_signals_done := true; sk_waits_at_end := true;
     sk_pre_created_first := true; sk_sol_created_after_solve := true |}.

Lemma good_contract : forall a b c s, reachable good (init a b c) s -> contract s = true.
Proof.
  intros a b c. apply (invariant_by_exploration good (init a b c) (explore 60 good [init a b c]) contract).
  - destruct a, b, c; vm_compute; auto.
  - destruct a, b, c; vm_compute; reflexivity.
  - destruct a, b, c; vm_compute; reflexivity.
Qed.

(* variants of the skeleton in which the contract fails on some interleaving *)
Definition no_wait : skeleton :=
  {| sk_add_before_spawn := true; sk_writer_signals_done := true; sk_waits_at_end := false;
     sk_pre_created_first := true; sk_sol_created_after_solve := true |}.
Definition add_in_writer : skeleton :=
  {| sk_add_before_spawn := false; sk_writer_signals_done := true; sk_waits_at_end := true;
     sk_pre_created_first := true; sk_sol_created_after_solve := true |}.
Definition create_in_writer : skeleton :=
  {| sk_add_before_spawn := true; sk_writer_signals_done := true; sk_waits_at_end := true;
     sk_pre_created_first := false; sk_sol_created_after_solve := true |}.

Definition violates (k : skeleton) (s0 : state) : bool := existsb (fun s => negb (contract s)) (explore 60 k [s0]).

Lemma explored_reachable (k : skeleton) (s0 : state) : forall fuel acc,
  Forall (reachable k s0) acc -> Forall (reachable k s0) (explore fuel k acc).
Proof.
  assert (A : forall new acc, Forall (reachable k s0) new -> Forall (reachable k s0) acc -> Forall (reachable k s0) (add_all new acc)).
  { induction new as [|x r IH]; intros acc Hn Ha; cbn; [exact Ha|].
    inversion Hn; subst. destruct (mem x acc); apply IH; auto. apply Forall_app. split; auto. }
  induction fuel as [|f IH]; intros acc Ha; cbn; [exact Ha|].
  set (acc' := add_all (flat_map (successors k) acc) acc).
  assert (Ha' : Forall (reachable k s0) acc').
  { apply A; [| exact Ha]. apply Forall_forall. intros s' Hs'. apply in_flat_map in Hs' as (s & Hs & Hin).
    rewrite Forall_forall in Ha. eapply reach_step; eauto. }
  destruct (Nat.eqb (length acc') (length acc)); [exact Ha | apply IH; exact Ha'].
Qed.

Lemma violates_sound k s0 : violates k s0 = true -> exists s, reachable k s0 s /\ contract s = false.
Proof.
  unfold violates. intros H. apply existsb_exists in H as (s & Hs & Hc).
  exists s. split; [| apply negb_true_iff; exact Hc].
  pose proof (explored_reachable k s0 60 [s0] (Forall_cons _ (reach_init k s0) (Forall_nil _))) as F.
  rewrite Forall_forall in F. apply F. exact Hs.
Qed.

Lemma no_wait_refuted : exists s, reachable no_wait (init true true true) s /\ contract s = false.
Proof. apply violates_sound. vm_compute. reflexivity. Qed.
Lemma add_in_writer_refuted : exists s, reachable add_in_writer (init true true true) s /\ contract s = false.
Proof. apply violates_sound. vm_compute. reflexivity. Qed.
Lemma create_in_writer_refuted : exists s, reachable create_in_writer (init true false true) s /\ contract s = false.
Proof. apply violates_sound. vm_compute. reflexivity. Qed.
