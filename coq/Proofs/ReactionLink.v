(* The reactions solve reports (Model/Recover.v reaction_at: bar-end torsors from the first / last
   listed diagram values, minus the load applied on that bar end) against the support forces of the
   equation form (Proofs/SystemProofs.v support_force: element forces minus assembled loads at a
   number).  For a node whose three numbers are shared by every bar end that meets it (rigid links)
   and occur nowhere else, the reported reaction IS the triple of support forces at those numbers;
   with C03_support_forces_in_global_equilibrium the reported reactions of such supports balance the
   loads. *)
From Coq Require Import ZArith QArith Qabs List Bool Arith Lia Field Lqa Permutation.
From Inkfem Require Import Num.NumOps Gen.GenStiffness Gen.GenLoads Gen.GenRecover Spec.Stiffness
  Spec.Superposition Model.Types Model.Slice Model.Dof Model.Assemble Model.Recover
  Proofs.AssembleProofs Proofs.RecoverProofs Proofs.ReactionProofs Proofs.FieldProofs Proofs.SystemProofs.
Import ListNotations.
Local Open Scope Q_scope.

Section Series.
Variable eps : Q.

Definition bottom (l : list (@psv Q)) : @psv Q := last l (0, 0).

Lemma push_nonempty acc x : push_if_new eps acc x <> [].
Proof. destruct acc as [|l r]; cbn; [discriminate|]. destruct (same_psv eps l x); discriminate. Qed.

Lemma push_bottom acc x : acc <> [] -> bottom (push_if_new eps acc x) = bottom acc.
Proof.
  destruct acc as [|l r]; [congruence|]. intros _. cbn [push_if_new].
  destruct (same_psv eps l x); [reflexivity|]. unfold bottom. cbn [last]. reflexivity.
Qed.

Lemma bottom_cons x l : l <> [] -> bottom (x :: l) = bottom l.
Proof. destruct l; [congruence|]. reflexivity. Qed.

Definition series_nonempty (s : @series4 Q) : Prop := s_ax s <> [] /\ s_sh s <> [] /\ s_bm s <> [] /\ s_tf s <> [].

Lemma add_slice_nonempty acc ta tb r : series_nonempty (add_slice eps acc ta tb r).
Proof. unfold series_nonempty, add_slice. cbn. repeat split; discriminate. Qed.

Lemma add_slice_bottom acc ta tb r : series_nonempty acc ->
  bottom (s_ax (add_slice eps acc ta tb r)) = bottom (s_ax acc) /\
  bottom (s_sh (add_slice eps acc ta tb r)) = bottom (s_sh acc) /\
  bottom (s_bm (add_slice eps acc ta tb r)) = bottom (s_bm acc).
Proof.
  intros (A & B & C & _). unfold add_slice. cbn [s_ax s_sh s_bm].
  repeat split; (rewrite bottom_cons by apply push_nonempty); apply push_bottom; assumption.
Qed.

Lemma stresses_from_bottom (b : bar Q) (u : list Q) : forall rest acc na da, series_nonempty acc ->
  let r := stresses_from eps b u acc na da rest in
  series_nonempty r /\ bottom (s_ax r) = bottom (s_ax acc) /\ bottom (s_sh r) = bottom (s_sh acc) /\ bottom (s_bm r) = bottom (s_bm acc).
Proof.
  induction rest as [|[nb db] rest IH]; intros acc na da Hne; cbn [stresses_from]; [repeat split; try apply Hne; reflexivity|].
  destruct (IH (add_slice eps acc (pn_t na) (pn_t nb) (slice_recover b u na nb da db)) nb db (add_slice_nonempty _ _ _ _)) as (N & A1 & A2 & A3).
  destruct (add_slice_bottom acc (pn_t na) (pn_t nb) (slice_recover b u na nb da db) Hne) as (B1 & B2 & B3).
  split; [exact N|]. rewrite A1, A2, A3, B1, B2, B3. repeat split; reflexivity.
Qed.

Lemma first_val_rev (l : list (@psv Q)) : l <> [] -> first_val (rev l) = snd (bottom l).
Proof.
  intros H. destruct (exists_last H) as (l' & x & ->). rewrite rev_app_distr. cbn [rev app first_val].
  unfold bottom. rewrite last_last. reflexivity.
Qed.

(* the first listed values of a bar are those at the trail end of its first finite element *)
Lemma first_values (p : pbar Q) (u : list Q) n0 d0 n1 d1 rest :
  combine (pb_nodes p) (pb_dofs p) = (n0, d0) :: (n1, d1) :: rest ->
  let s := compute_stresses eps p u in
  let r := slice_recover (pb_bar p) u n0 n1 d0 d1 in
  first_val (s_ax s) = q_ax (fst r) /\ first_val (s_sh s) = q_sh (fst r) /\ first_val (s_bm s) = q_bm (fst r).
Proof.
  intros E. unfold compute_stresses. rewrite E. cbn [stresses_from].
  set (acc := add_slice eps series0 (pn_t n0) (pn_t n1) (slice_recover (pb_bar p) u n0 n1 d0 d1)).
  destruct (stresses_from_bottom (pb_bar p) u rest acc n1 d1 (add_slice_nonempty _ _ _ _)) as ((N1 & N2 & N3 & _) & A1 & A2 & A3).
  cbn [s_ax s_sh s_bm]. rewrite !first_val_rev by assumption. rewrite A1, A2, A3.
  unfold acc, add_slice, series0, bottom. cbn. repeat split; reflexivity.
Qed.

(* the last pair of nodes of a chain *)
Fixpoint last_pair (na : pnode Q) (da : dof3) (rest : list (pnode Q * dof3)) : option (pnode Q * dof3 * pnode Q * dof3) :=
  match rest with
  | [] => None
  | (nb, db) :: r => match r with [] => Some (na, da, nb, db) | _ :: _ => last_pair nb db r end
  end.

Lemma stresses_from_head (b : bar Q) (u : list Q) : forall rest acc na da pa pda pb pdb,
  last_pair na da rest = Some (pa, pda, pb, pdb) ->
  let r := stresses_from eps b u acc na da rest in
  let q := slice_recover b u pa pb pda pdb in
  hd (0, 0) (s_ax r) = (pn_t pb, q_ax (snd q)) /\ hd (0, 0) (s_sh r) = (pn_t pb, q_sh (snd q)) /\ hd (0, 0) (s_bm r) = (pn_t pb, q_bm (snd q)).
Proof.
  induction rest as [|[nb db] rest IH]; intros acc na da pa pda pb pdb H; [discriminate|].
  cbn [last_pair] in H. cbn [stresses_from]. destruct rest as [|x rest'].
  - injection H as <- <- <- <-. cbn [stresses_from]. unfold add_slice. cbn. repeat split; reflexivity.
  - apply IH. exact H.
Qed.

Lemma last_val_rev (l : list (@psv Q)) : last_val (rev l) = snd (hd (0, 0) l).
Proof. unfold last_val. rewrite rev_involutive. destruct l; reflexivity. Qed.

Lemma last_values (p : pbar Q) (u : list Q) n0 d0 rest pa pda pb pdb :
  combine (pb_nodes p) (pb_dofs p) = (n0, d0) :: rest -> last_pair n0 d0 rest = Some (pa, pda, pb, pdb) ->
  let s := compute_stresses eps p u in
  let r := slice_recover (pb_bar p) u pa pb pda pdb in
  last_val (s_ax s) = q_ax (snd r) /\ last_val (s_sh s) = q_sh (snd r) /\ last_val (s_bm s) = q_bm (snd r).
Proof.
  intros E L. unfold compute_stresses. rewrite E. cbn [s_ax s_sh s_bm]. rewrite !last_val_rev.
  destruct (stresses_from_head (pb_bar p) u rest series0 n0 d0 pa pda pb pdb L) as (A1 & A2 & A3).
  rewrite A1, A2, A3. repeat split; reflexivity.
Qed.
End Series.

(* ---------- one bar end: reported torsor minus the load on that end = element force minus net load ---------- *)

Section Ends.
Variable eps : Q.

Definition sl_of (b : bar Q) (x y : pnode Q * dof3) : slice :=
  {| s_b := b; s_na := fst x; s_nb := fst y; s_da := snd x; s_db := snd y |}.

Definition net_global (b : bar Q) (n : pnode Q) : tor Q := to_global (b_c b) (b_s b) (pn_net n).

Lemma start_part (p : pbar Q) (u : list Q) n0 d0 n1 d1 rest :
  combine (pb_nodes p) (pb_dofs p) = (n0, d0) :: (n1, d1) :: rest ->
  good_bar (pb_bar p) -> ~ slice_len (pb_bar p) n0 n1 == 0 -> no_tiny (s_k (sl_of (pb_bar p) (n0, d0) (n1, d1))) ->
  tor_eqQ (pn_right n0) tor0 ->
  let sl := sl_of (pb_bar p) (n0, d0) (n1, d1) in
  let g := net_global (pb_bar p) n0 in
  tor_eqQ (tor_sub (start_torsor p (compute_stresses eps p u)) (ext_global (pb_bar p) n0))
          (s_force u sl 0 - t_fx g, s_force u sl 1 - t_fy g, s_force u sl 2 - t_mz g).
Proof.
  intros E Hb Hl Hk (R1 & R2 & R3) sl g.
  destruct (first_values eps p u n0 d0 n1 d1 rest E) as (V1 & V2 & V3).
  unfold start_torsor. rewrite V1, V2, V3.
  unfold sl_of in Hk. cbn [fst snd] in Hk.
  destruct (s_force_rotated u (pb_bar p) n0 n1 d0 d1 Hk Hl Hb) as (F0 & F1 & F2 & _).
  unfold sl, sl_of. cbn [fst snd].
  unfold tor_eqQ, tor_sub, t_fx, t_fy, t_mz. cbn [fst snd nsub QOps].
  rewrite F0, F1, F2.
  pose proof (recover_end_forces (pb_bar p) u n0 n1 d0 d1 Hb Hl) as RE. cbv zeta in RE.
  pose proof (Forall2_nth_Qeq _ _ 0 RE) as K0. pose proof (Forall2_nth_Qeq _ _ 1 RE) as K1. pose proof (Forall2_nth_Qeq _ _ 2 RE) as K2.
  cbn [nth] in K0, K1, K2. rewrite K0, K1, K2.
  unfold g, net_global, ext_global, nvm, start_torsor_gen, to_global, tor_sub, pn_net, tor_add, tor_eqQ, tor0, t_fx, t_fy, t_mz in *.
  cbn [fst snd nadd nmul nsub nopp NumOps.n0 QOps] in *.
  set (r := slice_recover (pb_bar p) u n0 n1 d0 d1). clearbody r.
  repeat split; ring_simplify; rewrite ?R1, ?R2, ?R3; ring.
Qed.

Lemma end_part (p : pbar Q) (u : list Q) n0 d0 rest pa pda pb pdb :
  combine (pb_nodes p) (pb_dofs p) = (n0, d0) :: rest -> last_pair n0 d0 rest = Some (pa, pda, pb, pdb) ->
  good_bar (pb_bar p) -> ~ slice_len (pb_bar p) pa pb == 0 -> no_tiny (s_k (sl_of (pb_bar p) (pa, pda) (pb, pdb))) ->
  tor_eqQ (pn_left pb) tor0 ->
  let sl := sl_of (pb_bar p) (pa, pda) (pb, pdb) in
  let g := net_global (pb_bar p) pb in
  tor_eqQ (tor_sub (end_torsor p (compute_stresses eps p u)) (ext_global (pb_bar p) pb))
          (s_force u sl 3 - t_fx g, s_force u sl 4 - t_fy g, s_force u sl 5 - t_mz g).
Proof.
  intros E L Hb Hl Hk (R1 & R2 & R3) sl g.
  destruct (last_values eps p u n0 d0 rest pa pda pb pdb E L) as (V1 & V2 & V3).
  unfold end_torsor. rewrite V1, V2, V3.
  unfold sl_of in Hk. cbn [fst snd] in Hk.
  destruct (s_force_rotated u (pb_bar p) pa pb pda pdb Hk Hl Hb) as (_ & _ & _ & F3 & F4 & F5).
  unfold sl, sl_of. cbn [fst snd].
  unfold tor_eqQ, tor_sub, t_fx, t_fy, t_mz. cbn [fst snd nsub QOps].
  rewrite F3, F4, F5.
  pose proof (recover_end_forces (pb_bar p) u pa pb pda pdb Hb Hl) as RE. cbv zeta in RE.
  pose proof (Forall2_nth_Qeq _ _ 3 RE) as K3. pose proof (Forall2_nth_Qeq _ _ 4 RE) as K4. pose proof (Forall2_nth_Qeq _ _ 5 RE) as K5.
  cbn [nth] in K3, K4, K5. rewrite K3, K4, K5.
  unfold g, net_global, ext_global, nvm, end_torsor_gen, to_global, tor_sub, pn_net, tor_add, tor_eqQ, tor0, t_fx, t_fy, t_mz in *.
  cbn [fst snd nadd nmul nsub nopp NumOps.n0 QOps] in *.
  set (r := slice_recover (pb_bar p) u pa pb pda pdb). clearbody r.
  repeat split; ring_simplify; rewrite ?R1, ?R2, ?R3; ring.
Qed.
End Ends.

(* ---------- where the numbers of a bar end occur ---------- *)

Lemma in_d3 (d : dof3) i : In i (d3_list d) <-> i = fst (fst d) \/ i = snd (fst d) \/ i = snd d.
Proof. destruct d as [[a b] c]. cbn. intuition congruence. Qed.

(* forces of an element at the three numbers of its trail node / of its lead node *)
Lemma sft_trail u sl : NoDup (d3_list (s_da sl)) -> (forall i, In i (d3_list (s_da sl)) -> ~ In i (d3_list (s_db sl))) ->
  fraw_at (s_fterms u sl) (fst (fst (s_da sl))) == s_force u sl 0 /\
  fraw_at (s_fterms u sl) (snd (fst (s_da sl))) == s_force u sl 1 /\
  fraw_at (s_fterms u sl) (snd (s_da sl)) == s_force u sl 2.
Proof.
  intros Hnd Hdis. unfold s_fterms. rewrite !fraw_at_map_seq. cbn [fst snd].
  unfold s_nums, slice_numbers, d3_list in *. destruct (s_da sl) as [[a1 a2] a3], (s_db sl) as [[b1 b2] b3].
  cbn [fst snd app seq map nth qsum fold_right] in *.
  assert (H12 : a1 <> a2 /\ a1 <> a3 /\ a2 <> a3).
  { inversion Hnd as [|? ? N1 N2]; subst. inversion N2 as [|? ? N3 N4]; subst.
    repeat split; intro E; subst; [apply N1 | apply N1 | apply N3]; cbn; auto. }
  destruct H12 as (H12 & H13 & H23).
  pose proof (Hdis a1 ltac:(cbn; auto)) as D1. pose proof (Hdis a2 ltac:(cbn; auto)) as D2. pose proof (Hdis a3 ltac:(cbn; auto)) as D3.
  cbn [In] in D1, D2, D3.
  rewrite ?eqb_refl_true.
  repeat match goal with |- context [Nat.eqb ?x ?y] => rewrite (eqb_neq_false x y) by (intro; subst; tauto) end.
  repeat split; ring.
Qed.

Lemma sft_lead u sl : NoDup (d3_list (s_db sl)) -> (forall i, In i (d3_list (s_db sl)) -> ~ In i (d3_list (s_da sl))) ->
  fraw_at (s_fterms u sl) (fst (fst (s_db sl))) == s_force u sl 3 /\
  fraw_at (s_fterms u sl) (snd (fst (s_db sl))) == s_force u sl 4 /\
  fraw_at (s_fterms u sl) (snd (s_db sl)) == s_force u sl 5.
Proof.
  intros Hnd Hdis. unfold s_fterms. rewrite !fraw_at_map_seq. cbn [fst snd].
  unfold s_nums, slice_numbers, d3_list in *. destruct (s_da sl) as [[a1 a2] a3], (s_db sl) as [[b1 b2] b3].
  cbn [fst snd app seq map nth qsum fold_right] in *.
  assert (H12 : b1 <> b2 /\ b1 <> b3 /\ b2 <> b3).
  { inversion Hnd as [|? ? N1 N2]; subst. inversion N2 as [|? ? N3 N4]; subst.
    repeat split; intro E; subst; [apply N1 | apply N1 | apply N3]; cbn; auto. }
  destruct H12 as (H12 & H13 & H23).
  pose proof (Hdis b1 ltac:(cbn; auto)) as D1. pose proof (Hdis b2 ltac:(cbn; auto)) as D2. pose proof (Hdis b3 ltac:(cbn; auto)) as D3.
  cbn [In] in D1, D2, D3.
  rewrite ?eqb_refl_true.
  repeat match goal with |- context [Nat.eqb ?x ?y] => rewrite (eqb_neq_false x y) by (intro; subst; tauto) end.
  repeat split; ring.
Qed.

Lemma node_fterms_own (b : bar Q) (nd : pnode Q) (d : dof3) : NoDup (d3_list d) ->
  let g := net_global b nd in
  fraw_at (node_fterms b (nd, d)) (fst (fst d)) == t_fx g /\
  fraw_at (node_fterms b (nd, d)) (snd (fst d)) == t_fy g /\
  fraw_at (node_fterms b (nd, d)) (snd d) == t_mz g.
Proof.
  intros Hnd g. rewrite !node_fterms_at. cbv zeta. fold (net_global b nd). fold g.
  destruct d as [[a1 a2] a3]. unfold d3_list in Hnd. cbn [fst snd] in *.
  assert (H12 : a1 <> a2 /\ a1 <> a3 /\ a2 <> a3).
  { inversion Hnd as [|? ? N1 N2]; subst. inversion N2 as [|? ? N3 N4]; subst.
    repeat split; intro E; subst; [apply N1 | apply N1 | apply N3]; cbn; auto. }
  destruct H12 as (H12 & H13 & H23).
  rewrite ?eqb_refl_true.
  repeat match goal with |- context [Nat.eqb ?x ?y] => rewrite (eqb_neq_false x y) by (intro; subst; tauto) end.
  repeat split; ring.
Qed.

Lemma last_pair_split : forall rest na da pa pda pb pdb, last_pair na da rest = Some (pa, pda, pb, pdb) ->
  exists Q, (na, da) :: rest = Q ++ [(pa, pda); (pb, pdb)].
Proof.
  induction rest as [|[nb db] rest IH]; intros na da pa pda pb pdb H; [discriminate|].
  cbn [last_pair] in H. destruct rest as [|x rest'].
  - injection H as <- <- <- <-. exists []. reflexivity.
  - destruct (IH nb db pa pda pb pdb H) as (Q & E). exists ((na, da) :: Q). rewrite E. reflexivity.
Qed.

(* what one bar contributes to the support force at a number *)
Definition bar_support (u : list Q) (p : pbar Q) (i : nat) : Q :=
  fraw_at (flat_map (s_fterms u) (bar_slices p)) i - fraw_at (bar_fterms p) i.

Lemma support_force_sum u bars i : support_force u bars i == qsum (map (fun p => bar_support u p i) bars).
Proof.
  unfold support_force, k_terms, all_slices, all_fterms, bar_support. rewrite flat_map_flat_map.
  induction bars as [|p bars IH]; cbn [flat_map map qsum fold_right].
  - unfold fraw_at. cbn [fold_left NumOps.n0 QOps]. ring.
  - change (fold_right Qplus 0 ?x) with (qsum x). rewrite !fraw_at_app, <- IH. ring.
Qed.

Lemma bar_support_absent u p i : ~ In i (nds_numbers (pbar_nds p)) -> bar_support u p i == 0.
Proof.
  intros H. unfold bar_support. rewrite (k_terms_bar_notin u p i H). unfold bar_fterms.
  fold (pbar_nds p). rewrite (fterms_nds_notin (pb_bar p) (pbar_nds p) i H). ring.
Qed.

Section BarEnds.
Variable eps : Q.

(* a bar whose FIRST node carries the numbers d0, which occur nowhere else in the bar *)
Lemma bar_support_start u p n0 d0 n1 d1 rest :
  pbar_nds p = (n0, d0) :: (n1, d1) :: rest -> NoDup (d3_list d0) ->
  (forall i, In i (d3_list d0) -> ~ In i (nds_numbers ((n1, d1) :: rest))) ->
  good_bar (pb_bar p) -> ~ slice_len (pb_bar p) n0 n1 == 0 -> no_tiny (s_k (sl_of (pb_bar p) (n0, d0) (n1, d1))) ->
  tor_eqQ (pn_right n0) tor0 ->
  tor_eqQ (tor_sub (start_torsor p (compute_stresses eps p u)) (ext_global (pb_bar p) n0))
          (bar_support u p (fst (fst d0)), bar_support u p (snd (fst d0)), bar_support u p (snd d0)).
Proof.
  intros E Hnd Hdis Hb Hl Hk Hr.
  eapply tor_eqQ_trans; [apply (start_part eps p u n0 d0 n1 d1 rest E Hb Hl Hk Hr)|].
  set (sl := sl_of (pb_bar p) (n0, d0) (n1, d1)).
  assert (Hd1 : forall i, In i (d3_list d0) -> ~ In i (d3_list d1)).
  { intros i Hi G. apply (Hdis i Hi). unfold nds_numbers. cbn [flat_map snd]. apply in_or_app. left. exact G. }
  destruct (sft_trail u sl Hnd Hd1) as (T0 & T1 & T2). cbn [sl sl_of s_da fst snd] in T0, T1, T2.
  destruct (node_fterms_own (pb_bar p) n0 d0 Hnd) as (G0 & G1 & G2).
  assert (K : forall i, In i (d3_list d0) ->
            bar_support u p i == fraw_at (s_fterms u sl) i - fraw_at (node_fterms (pb_bar p) (n0, d0)) i).
  { intros i Hi. unfold bar_support. rewrite bar_slices_chain. fold (pbar_nds p). rewrite E.
    change (chain_slices (pb_bar p) ((n0, d0) :: (n1, d1) :: rest)) with (sl :: chain_slices (pb_bar p) ((n1, d1) :: rest)).
    cbn [flat_map]. rewrite fraw_at_app. rewrite (fraw_chain_notin u (pb_bar p) ((n1, d1) :: rest) i (Hdis i Hi)).
    unfold bar_fterms. fold (pbar_nds p). rewrite E. cbn [flat_map]. rewrite fraw_at_app.
    rewrite (fterms_nds_notin (pb_bar p) ((n1, d1) :: rest) i (Hdis i Hi)). ring. }
  unfold tor_eqQ, t_fx, t_fy, t_mz. cbn [fst snd].
  rewrite (K (fst (fst d0))), (K (snd (fst d0))), (K (snd d0)) by (apply in_d3; auto).
  rewrite T0, T1, T2, G0, G1, G2. repeat split; reflexivity.
Qed.

(* a bar whose LAST node carries the numbers pdb, which occur nowhere else in the bar *)
Lemma bar_support_end u p n0 d0 rest pa pda pb pdb :
  pbar_nds p = (n0, d0) :: rest -> last_pair n0 d0 rest = Some (pa, pda, pb, pdb) -> NoDup (d3_list pdb) ->
  (forall Q, (n0, d0) :: rest = Q ++ [(pa, pda); (pb, pdb)] -> forall i, In i (d3_list pdb) -> ~ In i (nds_numbers (Q ++ [(pa, pda)]))) ->
  good_bar (pb_bar p) -> ~ slice_len (pb_bar p) pa pb == 0 -> no_tiny (s_k (sl_of (pb_bar p) (pa, pda) (pb, pdb))) ->
  tor_eqQ (pn_left pb) tor0 ->
  tor_eqQ (tor_sub (end_torsor p (compute_stresses eps p u)) (ext_global (pb_bar p) pb))
          (bar_support u p (fst (fst pdb)), bar_support u p (snd (fst pdb)), bar_support u p (snd pdb)).
Proof.
  intros E L Hnd Hdis Hb Hl Hk Hr.
  eapply tor_eqQ_trans; [apply (end_part eps p u n0 d0 rest pa pda pb pdb E L Hb Hl Hk Hr)|].
  set (sl := sl_of (pb_bar p) (pa, pda) (pb, pdb)).
  destruct (last_pair_split rest n0 d0 pa pda pb pdb L) as (Q & EQ).
  specialize (Hdis Q EQ).
  assert (Hda : forall i, In i (d3_list pdb) -> ~ In i (d3_list pda)).
  { intros i Hi G. apply (Hdis i Hi). rewrite nds_numbers_app. apply in_or_app. right. unfold nds_numbers. cbn [flat_map snd]. rewrite app_nil_r. exact G. }
  destruct (sft_lead u sl Hnd Hda) as (T0 & T1 & T2). cbn [sl sl_of s_db fst snd] in T0, T1, T2.
  destruct (node_fterms_own (pb_bar p) pb pdb Hnd) as (G0 & G1 & G2).
  assert (K : forall i, In i (d3_list pdb) ->
            bar_support u p i == fraw_at (s_fterms u sl) i - fraw_at (node_fterms (pb_bar p) (pb, pdb)) i).
  { intros i Hi. unfold bar_support. rewrite bar_slices_chain. fold (pbar_nds p). rewrite E, EQ.
    rewrite (chain_slices_app (pb_bar p) Q (pa, pda) [(pb, pdb)]).
    change (chain_slices (pb_bar p) [(pa, pda); (pb, pdb)]) with [sl].
    rewrite flat_map_app. cbn [flat_map]. rewrite ?app_nil_r, !fraw_at_app.
    rewrite (fraw_chain_notin u (pb_bar p) (Q ++ [(pa, pda)]) i (Hdis i Hi)).
    unfold bar_fterms. fold (pbar_nds p). rewrite E, EQ.
    replace (Q ++ [(pa, pda); (pb, pdb)]) with ((Q ++ [(pa, pda)]) ++ [(pb, pdb)]) by (rewrite <- app_assoc; reflexivity).
    rewrite flat_map_app. cbn [flat_map]. rewrite ?app_nil_r, !fraw_at_app.
    rewrite (fterms_nds_notin (pb_bar p) (Q ++ [(pa, pda)]) i (Hdis i Hi)). ring. }
  unfold tor_eqQ, t_fx, t_fy, t_mz. cbn [fst snd].
  rewrite (K (fst (fst pdb))), (K (snd (fst pdb))), (K (snd pdb)) by (apply in_d3; auto).
  rewrite T0, T1, T2, G0, G1, G2. repeat split; reflexivity.
Qed.
End BarEnds.

(* ---------- a node all of whose bar ends share its three numbers ---------- *)

Section Node.
Variable eps : Q.

(* how bar p meets the node N whose numbers are dN: it starts there, ends there, or neither; in
   each case the numbers dN occur in p exactly at that end node (rigid link) and nowhere else *)
Definition meets (p : pbar Q) (N : nat) (dN : dof3) : Prop :=
  (b_n1 (pb_bar p) = N /\ b_n2 (pb_bar p) <> N /\
   exists n0 n1 d1 rest, pbar_nds p = (n0, dN) :: (n1, d1) :: rest /\
     (forall i, In i (d3_list dN) -> ~ In i (nds_numbers ((n1, d1) :: rest))) /\
     good_bar (pb_bar p) /\ ~ slice_len (pb_bar p) n0 n1 == 0 /\ no_tiny (s_k (sl_of (pb_bar p) (n0, dN) (n1, d1))) /\
     tor_eqQ (pn_right n0) tor0)
  \/
  (b_n1 (pb_bar p) <> N /\ b_n2 (pb_bar p) = N /\
   exists n0 d0 rest pa pda pb, pbar_nds p = (n0, d0) :: rest /\ last_pair n0 d0 rest = Some (pa, pda, pb, dN) /\
     (forall Q, (n0, d0) :: rest = Q ++ [(pa, pda); (pb, dN)] -> forall i, In i (d3_list dN) -> ~ In i (nds_numbers (Q ++ [(pa, pda)]))) /\
     good_bar (pb_bar p) /\ ~ slice_len (pb_bar p) pa pb == 0 /\ no_tiny (s_k (sl_of (pb_bar p) (pa, pda) (pb, dN))) /\
     tor_eqQ (pn_left pb) tor0)
  \/
  (b_n1 (pb_bar p) <> N /\ b_n2 (pb_bar p) <> N /\ forall i, In i (d3_list dN) -> ~ In i (nds_numbers (pbar_nds p))).

Lemma first_last_nodes (p : pbar Q) n0 d0 rest : pbar_nds p = (n0, d0) :: rest -> first_node p = n0.
Proof.
  unfold pbar_nds, first_node. destruct (pb_nodes p) as [|a l]; destruct (pb_dofs p) as [|d ds]; cbn; try discriminate.
  intros E. injection E as -> _ _. reflexivity.
Qed.

Lemma combine_last (l : list (pnode Q)) : forall (ds : list dof3) n0 d0 rest pa pda pb pdb dflt,
  length l = length ds -> combine l ds = (n0, d0) :: rest -> last_pair n0 d0 rest = Some (pa, pda, pb, pdb) ->
  last l dflt = pb.
Proof.
  induction l as [|a l IH]; intros ds n0 d0 rest pa pda pb pdb dflt Hlen E L; [destruct ds; discriminate|].
  destruct ds as [|d ds]; [discriminate|]. cbn [combine] in E. injection E as -> -> <-.
  destruct l as [|a' l']; destruct ds as [|d' ds']; cbn [combine] in L; try discriminate.
  cbn [last_pair] in L. cbn [combine] in L.
  destruct (combine l' ds') as [|x r] eqn:EC.
  - injection L as _ _ <- _. destruct l' as [|a'' l'']; [reflexivity|]. destruct ds' as [|d'' ds'']; [cbn in Hlen; lia | cbn in EC; discriminate].
  - change (last (n0 :: a' :: l') dflt) with (last (a' :: l') dflt).
    apply (IH (d' :: ds') a' d' (x :: r) pa pda pb pdb dflt); [cbn in *; lia | cbn [combine]; rewrite EC; reflexivity | exact L].
Qed.

Lemma reaction_part_meets (u : list Q) (p : pbar Q) (N : nat) (dN : dof3) :
  length (pb_nodes p) = length (pb_dofs p) -> NoDup (d3_list dN) -> meets p N dN ->
  tor_eqQ (reaction_part eps u N p)
          (bar_support u p (fst (fst dN)), bar_support u p (snd (fst dN)), bar_support u p (snd dN)).
Proof.
  intros Hlen Hnd [(H1 & H2 & n0 & n1 & d1 & rest & E & Hdis & Hb & Hl & Hk & Hr)
                  | [(H1 & H2 & n0 & d0 & rest & pa & pda & pb & E & L & Hdis & Hb & Hl & Hk & Hr)
                  | (H1 & H2 & Habs)]].
  - unfold reaction_part. cbv zeta. rewrite (proj2 (Nat.eqb_eq _ _) H1).
    rewrite (first_last_nodes p n0 dN _ E).
    apply (bar_support_start eps u p n0 dN n1 d1 rest E Hnd Hdis Hb Hl Hk Hr).
  - unfold reaction_part. cbv zeta. rewrite (proj2 (Nat.eqb_neq _ _) H1), (proj2 (Nat.eqb_eq _ _) H2).
    unfold last_node. rewrite (combine_last (pb_nodes p) (pb_dofs p) n0 d0 rest pa pda pb dN _ Hlen E L).
    apply (bar_support_end eps u p n0 d0 rest pa pda pb dN E L Hnd Hdis Hb Hl Hk Hr).
  - unfold reaction_part. cbv zeta. rewrite (proj2 (Nat.eqb_neq _ _) H1), (proj2 (Nat.eqb_neq _ _) H2).
    unfold tor_eqQ, tor0, t_fx, t_fy, t_mz. cbn [fst snd NumOps.n0 QOps].
    rewrite !bar_support_absent by (apply Habs; apply in_d3; auto). repeat split; reflexivity.
Qed.

Lemma tor_sum_components (A : Type) (f : A -> tor Q) (fx fy fz : A -> Q) (l : list A) :
  (forall x, In x l -> tor_eqQ (f x) (fx x, fy x, fz x)) ->
  tor_eqQ (tor_sumQ (map f l)) (qsum (map fx l), qsum (map fy l), qsum (map fz l)).
Proof.
  induction l as [|a l IH]; intros H.
  - unfold tor_eqQ, tor_sumQ, tor0, t_fx, t_fy, t_mz. cbn. repeat split; reflexivity.
  - destruct (H a (or_introl eq_refl)) as (A1 & A2 & A3).
    destruct (IH (fun x Hx => H x (or_intror Hx))) as (B1 & B2 & B3).
    cbn [map tor_sumQ fold_right qsum]. fold (tor_sumQ (map f l)).
    change (fold_right Qplus 0 ?y) with (qsum y).
    unfold tor_eqQ, tor_add, t_fx, t_fy, t_mz in *. cbn [fst snd nadd QOps] in *.
    rewrite A1, A2, A3, B1, B2, B3. repeat split; reflexivity.
Qed.

(* THEOREM: the reaction solve reports at such a node is the triple of support forces of the equation
   form at the node's three numbers *)
Theorem reported_reaction_is_support_force (u : list Q) (bars : list (pbar Q)) (N : nat) (dN : dof3) :
  NoDup (d3_list dN) ->
  (forall p, In p bars -> length (pb_nodes p) = length (pb_dofs p) /\ meets p N dN) ->
  tor_eqQ (reaction_at eps bars u N)
          (support_force u bars (fst (fst dN)), support_force u bars (snd (fst dN)), support_force u bars (snd dN)).
Proof.
  intros Hnd Hall.
  eapply tor_eqQ_trans; [apply reaction_is_sum|].
  eapply tor_eqQ_trans.
  - apply (tor_sum_components _ (reaction_part eps u N)
             (fun p => bar_support u p (fst (fst dN))) (fun p => bar_support u p (snd (fst dN))) (fun p => bar_support u p (snd dN))).
    intros p Hp. destruct (Hall p Hp) as (Hlen & Hm). apply reaction_part_meets; assumption.
  - unfold tor_eqQ, t_fx, t_fy, t_mz. cbn [fst snd]. rewrite !support_force_sum. repeat split; reflexivity.
Qed.
End Node.

(* ---------- joints with released bar ends ---------- *)

Section Released.
Variable eps : Q.

Definition comp_of (d : dof3) (k : nat) : nat := nth k (d3_list d) 0%nat.

(* component by component, a bar end either carries the node's number, or a number of its own at
   which the bar's support contribution vanishes (by its own row of the system) while the node's
   number does not occur in the bar at all *)
Definition end_numbers_ok (u : list Q) (p : pbar Q) (dE dN : dof3) : Prop :=
  forall k, (k < 3)%nat ->
    comp_of dE k = comp_of dN k \/
    (bar_support u p (comp_of dE k) == 0 /\ bar_support u p (comp_of dN k) == 0).

Definition meets_gen (u : list Q) (p : pbar Q) (N : nat) (dN : dof3) : Prop :=
  (b_n1 (pb_bar p) = N /\ b_n2 (pb_bar p) <> N /\
   exists n0 dE n1 d1 rest, pbar_nds p = (n0, dE) :: (n1, d1) :: rest /\ NoDup (d3_list dE) /\ end_numbers_ok u p dE dN /\
     (forall i, In i (d3_list dE) -> ~ In i (nds_numbers ((n1, d1) :: rest))) /\
     good_bar (pb_bar p) /\ ~ slice_len (pb_bar p) n0 n1 == 0 /\ no_tiny (s_k (sl_of (pb_bar p) (n0, dE) (n1, d1))) /\
     tor_eqQ (pn_right n0) tor0)
  \/
  (b_n1 (pb_bar p) <> N /\ b_n2 (pb_bar p) = N /\
   exists n0 d0 rest pa pda pb dE, pbar_nds p = (n0, d0) :: rest /\ last_pair n0 d0 rest = Some (pa, pda, pb, dE) /\
     NoDup (d3_list dE) /\ end_numbers_ok u p dE dN /\
     (forall Q, (n0, d0) :: rest = Q ++ [(pa, pda); (pb, dE)] -> forall i, In i (d3_list dE) -> ~ In i (nds_numbers (Q ++ [(pa, pda)]))) /\
     good_bar (pb_bar p) /\ ~ slice_len (pb_bar p) pa pb == 0 /\ no_tiny (s_k (sl_of (pb_bar p) (pa, pda) (pb, dE))) /\
     tor_eqQ (pn_left pb) tor0)
  \/
  (b_n1 (pb_bar p) <> N /\ b_n2 (pb_bar p) <> N /\ forall i, In i (d3_list dN) -> ~ In i (nds_numbers (pbar_nds p))).

Lemma end_numbers_transfer u p dE dN : end_numbers_ok u p dE dN ->
  tor_eqQ (bar_support u p (fst (fst dE)), bar_support u p (snd (fst dE)), bar_support u p (snd dE))
          (bar_support u p (fst (fst dN)), bar_support u p (snd (fst dN)), bar_support u p (snd dN)).
Proof.
  intros H. destruct dE as [[e1 e2] e3], dN as [[a1 a2] a3].
  pose proof (H 0%nat ltac:(lia)) as H0. pose proof (H 1%nat ltac:(lia)) as H1. pose proof (H 2%nat ltac:(lia)) as H2.
  unfold comp_of, d3_list in H0, H1, H2. cbn [nth fst snd] in H0, H1, H2.
  unfold tor_eqQ, t_fx, t_fy, t_mz. cbn [fst snd].
  repeat split.
  - destruct H0 as [-> | (A & B)]; [reflexivity | rewrite A, B; reflexivity].
  - destruct H1 as [-> | (A & B)]; [reflexivity | rewrite A, B; reflexivity].
  - destruct H2 as [-> | (A & B)]; [reflexivity | rewrite A, B; reflexivity].
Qed.

Lemma reaction_part_meets_gen (u : list Q) (p : pbar Q) (N : nat) (dN : dof3) :
  length (pb_nodes p) = length (pb_dofs p) -> meets_gen u p N dN ->
  tor_eqQ (reaction_part eps u N p)
          (bar_support u p (fst (fst dN)), bar_support u p (snd (fst dN)), bar_support u p (snd dN)).
Proof.
  intros Hlen [(H1 & H2 & n0 & dE & n1 & d1 & rest & E & Hnd & Hok & Hdis & Hb & Hl & Hk & Hr)
              | [(H1 & H2 & n0 & d0 & rest & pa & pda & pb & dE & E & L & Hnd & Hok & Hdis & Hb & Hl & Hk & Hr)
              | (H1 & H2 & Habs)]].
  - eapply tor_eqQ_trans; [| apply (end_numbers_transfer u p dE dN Hok)].
    unfold reaction_part. cbv zeta. rewrite (proj2 (Nat.eqb_eq _ _) H1).
    rewrite (first_last_nodes p n0 dE _ E).
    apply (bar_support_start eps u p n0 dE n1 d1 rest E Hnd Hdis Hb Hl Hk Hr).
  - eapply tor_eqQ_trans; [| apply (end_numbers_transfer u p dE dN Hok)].
    unfold reaction_part. cbv zeta. rewrite (proj2 (Nat.eqb_neq _ _) H1), (proj2 (Nat.eqb_eq _ _) H2).
    unfold last_node. rewrite (combine_last (pb_nodes p) (pb_dofs p) n0 d0 rest pa pda pb dE _ Hlen E L).
    apply (bar_support_end eps u p n0 d0 rest pa pda pb dE E L Hnd Hdis Hb Hl Hk Hr).
  - unfold reaction_part. cbv zeta. rewrite (proj2 (Nat.eqb_neq _ _) H1), (proj2 (Nat.eqb_neq _ _) H2).
    unfold tor_eqQ, tor0, t_fx, t_fy, t_mz. cbn [fst snd NumOps.n0 QOps].
    rewrite !bar_support_absent by (apply Habs; apply in_d3; auto). repeat split; reflexivity.
Qed.

(* THEOREM (any joint): the reaction solve reports at a node is the triple of support forces of the
   equation form at the node's three numbers, whatever mix of rigid, hinged or sliding bar ends
   meets there *)
Theorem reported_reaction_is_support_force_gen (u : list Q) (bars : list (pbar Q)) (N : nat) (dN : dof3) :
  (forall p, In p bars -> length (pb_nodes p) = length (pb_dofs p) /\ meets_gen u p N dN) ->
  tor_eqQ (reaction_at eps bars u N)
          (support_force u bars (fst (fst dN)), support_force u bars (snd (fst dN)), support_force u bars (snd dN)).
Proof.
  intros Hall.
  eapply tor_eqQ_trans; [apply reaction_is_sum|].
  eapply tor_eqQ_trans.
  - apply (tor_sum_components _ (reaction_part eps u N)
             (fun p => bar_support u p (fst (fst dN))) (fun p => bar_support u p (snd (fst dN))) (fun p => bar_support u p (snd dN))).
    intros p Hp. destruct (Hall p Hp) as (Hlen & Hm). apply reaction_part_meets_gen; assumption.
  - unfold tor_eqQ, t_fx, t_fy, t_mz. cbn [fst snd]. rewrite !support_force_sum. repeat split; reflexivity.
Qed.

(* where the hypothesis "the bar's support contribution vanishes at a number of its own" comes from:
   a number carried by one bar only, without support and with a row, has no support force at all
   (C03_no_support_force_at_free_numbers), and that force is the bar's own contribution *)
Lemma own_number_no_support n sup u B1 p B2 e :
  let bars := B1 ++ p :: B2 in
  Forall (nums_below n) (all_slices bars) -> solves n bars sup u -> (e < n)%nat ->
  is_supported sup e = false -> row_empty (all_contribs bars) e = false ->
  ~ In e (bars_numbers B1) -> ~ In e (bars_numbers B2) ->
  bar_support u p e == 0.
Proof.
  intros bars Hn Hs He Hsup Hrow HB1 HB2.
  assert (S0 : support_force u bars e == 0).
  { unfold support_force. rewrite (row_is_equilibrium n bars sup u e Hn Hs He Hsup Hrow). ring. }
  rewrite support_force_sum in S0. unfold bars in S0. rewrite map_app in S0. cbn [map] in S0.
  rewrite qsum_app in S0. cbn [qsum fold_right] in S0. change (fold_right Qplus 0 ?x) with (qsum x) in S0.
  assert (Z : forall B, ~ In e (bars_numbers B) -> qsum (map (fun q => bar_support u q e) B) == 0).
  { induction B as [|q B IH]; intros H; [reflexivity|]. cbn [map qsum fold_right]. change (fold_right Qplus 0 ?x) with (qsum x).
    unfold bars_numbers in H. cbn [flat_map] in H.
    rewrite IH by (intro G; apply H; apply in_or_app; right; exact G).
    rewrite bar_support_absent by (intro G; apply H; apply in_or_app; left; exact G). ring. }
  rewrite (Z B1 HB1), (Z B2 HB2) in S0. lra.
Qed.
End Released.

(* ---------- the reported reactions balance the loads ---------- *)

Section Balance.
Variable eps : Q.

Lemma fsum_over_list n (sup : list nat) (g : nat -> Q) : NoDup sup -> Forall (fun i => (i < n)%nat) sup ->
  fsum n (fun i => if is_supported sup i then g i else 0) == qsum (map g sup).
Proof.
  induction sup as [|a sup IH]; intros Hnd Hlt.
  - cbn [map qsum fold_right is_supported existsb]. apply fsum_zero.
  - inversion Hnd as [|? ? Hna Hnd']; subst. inversion Hlt as [|? ? Ha Hlt']; subst.
    cbn [map qsum fold_right]. change (fold_right Qplus 0 ?x) with (qsum x). rewrite <- (IH Hnd' Hlt').
    rewrite <- (fsum_pick n a g Ha), <- fsum_add. apply fsum_ext. intros i _.
    unfold is_supported. cbn [existsb]. rewrite (Nat.eqb_sym i a).
    destruct (Nat.eqb_spec a i) as [->|Hne]; cbn [orb].
    + assert (E : existsb (Nat.eqb i) sup = false).
      { apply not_true_is_false. intro E. apply existsb_exists in E as (x & Hx & Ex). apply Nat.eqb_eq in Ex. subst. contradiction. }
      rewrite E. ring.
    + ring.
Qed.

(* work of a torsor applied at the three numbers of a node *)
Definition node_work (w : nat -> Q) (r : tor Q) (d : dof3) : Q :=
  w (fst (fst d)) * t_fx r + w (snd (fst d)) * t_fy r + w (snd d) * t_mz r.

Definition node_supported (x : nat * link * dof3) : list nat :=
  let l := snd (fst x) in let d := snd x in
  (if lk_dx l then [fst (fst d)] else []) ++ (if lk_dy l then [snd (fst d)] else []) ++ (if lk_rz l then [snd d] else []).

(* a node's reported reaction is the support force at its numbers, and a component the external
   constraint leaves free carries no support force *)
Definition node_reaction_ok (u : list Q) (bars : list (pbar Q)) (x : nat * link * dof3) : Prop :=
  let N := fst (fst x) in let l := snd (fst x) in let d := snd x in
  tor_eqQ (reaction_at eps bars u N) (support_force u bars (fst (fst d)), support_force u bars (snd (fst d)), support_force u bars (snd d)) /\
  (lk_dx l = false -> support_force u bars (fst (fst d)) == 0) /\
  (lk_dy l = false -> support_force u bars (snd (fst d)) == 0) /\
  (lk_rz l = false -> support_force u bars (snd d) == 0).

Lemma node_work_supported u bars w x : node_reaction_ok u bars x ->
  qsum (map (fun i => w i * support_force u bars i) (node_supported x)) == node_work w (reaction_at eps bars u (fst (fst x))) (snd x).
Proof.
  intros ((R1 & R2 & R3) & Fx & Fy & Fz). unfold node_work, node_supported. cbv zeta.
  unfold t_fx, t_fy, t_mz in *. cbn [fst snd] in *. rewrite R1, R2, R3.
  destruct (lk_dx (snd (fst x))) eqn:Ex; destruct (lk_dy (snd (fst x))) eqn:Ey; destruct (lk_rz (snd (fst x))) eqn:Ez;
    cbn [app map qsum fold_right]; rewrite ?(Fx eq_refl), ?(Fy eq_refl), ?(Fz eq_refl); ring.
Qed.

Lemma supported_of_nodes (nodes : list (nat * link * dof3)) :
  supported_of (map (fun x => (snd (fst x), snd x)) nodes) = flat_map node_supported nodes.
Proof. unfold supported_of. rewrite flat_map_concat_map, map_map, <- flat_map_concat_map. reflexivity. Qed.

(* THEOREM: the reactions solve REPORTS for the nodes of the structure and all the assembled nodal
   loads balance - in x, in y and in moment about any point (the three rigid movements w) *)
Theorem reported_reactions_in_global_equilibrium n u bars (lab : nat -> label) (nodes : list (nat * link * dof3)) :
  let sup := supported_of (map (fun x => (snd (fst x), snd x)) nodes) in
  NoDup sup -> Forall (fun i => (i < n)%nat) sup ->
  Forall (nums_below n) (all_slices bars) ->
  Forall (fun t => (fst t < n)%nat) (all_fterms bars) ->
  solves n bars sup u ->
  (forall i, (i < n)%nat -> row_empty (all_contribs bars) i = true -> fraw_at (all_fterms bars) i == 0) ->
  Forall (fun sl => no_tiny (s_k sl) /\ labelled lab sl /\ ~ slice_len (s_b sl) (s_na sl) (s_nb sl) == 0 /\
                    b_c (s_b sl) * b_c (s_b sl) + b_s (s_b sl) * b_s (s_b sl) == 1) (all_slices bars) ->
  Forall (node_reaction_ok u bars) nodes ->
  forall w, (w = w_tx lab \/ w = w_ty lab \/ exists px py, w = w_rot lab px py) ->
  qsum (map (fun x => node_work w (reaction_at eps bars u (fst (fst x))) (snd x)) nodes) + wsum w (all_fterms bars) == 0.
Proof.
  intros sup Hnd Hlt Hn Hf Hs Horph Hsl Hnodes w Hw.
  rewrite <- (support_forces_in_global_equilibrium n sup u bars lab Hn Hf Hs Horph Hsl w Hw).
  apply Qplus_inj_r.
  rewrite (fsum_over_list n sup (fun i => w i * support_force u bars i) Hnd Hlt).
  unfold sup. rewrite supported_of_nodes.
  clear Hnd Hlt Hs sup. induction nodes as [|x nodes IH]; [reflexivity|].
  inversion Hnodes as [|? ? Hx Hrest]; subst.
  cbn [map flat_map qsum fold_right]. change (fold_right Qplus 0 ?y) with (qsum y).
  rewrite map_app, qsum_app, (node_work_supported u bars w x Hx), (IH Hrest). reflexivity.
Qed.
End Balance.
