(* C15 over the rationals: the slicing of a bar yields a well-formed chain of nodes. *)
From Coq Require Import ZArith QArith Qabs List Sorted Bool Lia Lqa Permutation.
From Inkfem Require Import Num.NumOps Gen.GenConsts Model.Types Model.Slice Model.Loads Spec.Chain.
Import ListNotations.
Local Open Scope Q_scope.

(* ---------- arithmetic helpers ---------- *)

Lemma Qabs_cases x : (0 <= x /\ Qabs x == x) \/ (x <= 0 /\ Qabs x == - x).
Proof.
  destruct (Qlt_le_dec x 0) as [H|H]; [right|left]; split;
    auto using Qlt_le_weak, Qabs_pos, Qabs_neg.
Qed.

Ltac qabs1 t :=
  let a := fresh "a" in let H := fresh "Ha" in let E := fresh "Ea" in
  pose proof (Qabs_cases t) as H; remember (Qabs t) as a eqn:E; clear E.
Ltac qabs_elim := repeat match goal with
  | |- context [Qabs ?t] => qabs1 t
  | _ : context [Qabs ?t] |- _ => qabs1 t
  end.
Ltac qabs := unfold eps in *; qabs_elim; lra.

Lemma Qle_bool_false x y : Qle_bool x y = false <-> y < x.
Proof.
  split; intro H.
  - apply Qnot_le_lt. intro H'. apply Qle_bool_iff in H'. congruence.
  - destruct (Qle_bool x y) eqn:E; auto. apply Qle_bool_iff in E.
    exfalso. apply (Qlt_not_le _ _ H E).
Qed.

Lemma teq_spec (a b : Q) : teq a b = negb (Qle_bool eps (Qabs (a - b))).
Proof. reflexivity. Qed.

Lemma teq_true (a b : Q) : teq a b = true <-> Qabs (a - b) < eps.
Proof. rewrite teq_spec, negb_true_iff. apply Qle_bool_false. Qed.

Lemma teq_false (a b : Q) : teq a b = false <-> eps <= Qabs (a - b).
Proof. rewrite teq_spec, negb_false_iff. apply Qle_bool_iff. Qed.

Lemma is_extreme_false (t : Q) : is_extreme t = false <-> interior t.
Proof.
  unfold is_extreme, is_max, is_min, interior.
  rewrite orb_false_iff, !teq_false.
  split; intros [H1 H2]; split; assumption.
Qed.

(* ---------- insertion sort ---------- *)

Lemma insert_perm (x : Q) l : Permutation (x :: l) (insert x l).
Proof.
  induction l as [|y r IH]; cbn; auto.
  destruct (Qle_bool x y); auto.
  eapply perm_trans; [apply perm_swap|]. apply perm_skip, IH.
Qed.

Lemma sort_perm (l : list Q) : Permutation l (sort l).
Proof.
  induction l as [|x r IH]; cbn; auto.
  eapply perm_trans; [apply perm_skip, IH|]. apply insert_perm.
Qed.

Lemma insert_sorted (x : Q) l : StronglySorted Qle l -> StronglySorted Qle (insert x l).
Proof.
  induction 1 as [|y r Hs IH Hf]; cbn.
  - constructor; constructor.
  - destruct (Qle_bool x y) eqn:E.
    + apply Qle_bool_iff in E. constructor.
      * constructor; assumption.
      * constructor; auto. rewrite Forall_forall in *. intros z Hz.
        eapply Qle_trans; [exact E|]. auto.
    + apply Qle_bool_false in E. constructor; auto.
      rewrite Forall_forall in *. intros z Hz.
      apply (Permutation_in _ (Permutation_sym (insert_perm x r))) in Hz.
      destruct Hz as [<-|Hz]; auto. apply Qlt_le_weak, E.
Qed.

Lemma sort_sorted (l : list Q) : StronglySorted Qle (sort l).
Proof. induction l; cbn; [constructor | apply insert_sorted; assumption]. Qed.

(* ---------- dedupe ---------- *)

Lemma dd_in : forall l (last k : Q), In k (dedupe_from last l) -> In k l.
Proof.
  induction l as [|x r IH]; cbn [dedupe_from In length app]; intros last k H; auto.
  destruct (teq x last).
  - right; eauto.
  - destruct H as [H|H]; [left; auto | right; eauto].
Qed.

Lemma dd_length : forall l (last : Q), (length (dedupe_from last l) <= length l)%nat.
Proof.
  induction l as [|x r IH]; cbn [dedupe_from In length app]; intros last; auto.
  destruct (teq x last); cbn [length].
  - specialize (IH last). lia.
  - specialize (IH x). lia.
Qed.

Lemma dd_sorted : forall l (last : Q), StronglySorted Qle l -> Forall (Qle last) l ->
  Forall (fun k => last + eps <= k) (dedupe_from last l) /\ increasing (dedupe_from last l).
Proof.
  unfold increasing.
  induction l as [|x r IH]; cbn [dedupe_from In length app]; intros last Hs Hf.
  - split; constructor.
  - inversion Hs as [|? ? Hs' Hf']; subst. inversion Hf as [|? ? Hlx Hf'']; subst.
    destruct (teq x last) eqn:E.
    + apply IH; assumption.
    + apply teq_false in E.
      assert (Hgap : last + eps <= x) by qabs.
      destruct (IH x Hs' Hf') as [IH1 IH2]. split.
      * constructor; auto. rewrite Forall_forall in *. intros k Hk.
        specialize (IH1 k Hk). cbv beta in IH1. unfold eps in *. lra.
      * constructor; assumption.
Qed.

Lemma dd_cover : forall l (last y : Q), In y l ->
  exists k, In k (last :: dedupe_from last l) /\ Qabs (k - y) < eps.
Proof.
  induction l as [|x r IH]; cbn [dedupe_from In length app]; intros last y H; [contradiction|].
  destruct (teq x last) eqn:E.
  - destruct H as [<-|H].
    + apply teq_true in E. exists last. split; [left; reflexivity | qabs].
    + apply IH; assumption.
  - destruct H as [<-|H].
    + exists x. split; [right; left; reflexivity | qabs].
    + destruct (IH x y H) as (k & Hk & Hd). exists k. split; [right; exact Hk | exact Hd].
Qed.

Lemma dd_last : forall front (last z : Q), (forall y, In y (last :: front) -> y + eps <= z) ->
  dedupe_from last (front ++ [z]) = dedupe_from last front ++ [z].
Proof.
  induction front as [|x r IH]; cbn [dedupe_from In length app]; intros last z H.
  - assert (Hl : last + eps <= z) by (apply H; auto).
    assert (E : teq z last = false) by (apply teq_false; qabs).
    rewrite E. reflexivity.
  - destruct (teq x last).
    + apply IH. intros y [<-|Hy]; apply H; auto.
    + cbn [app]. f_equal. apply IH. intros y [<-|Hy]; apply H; auto.
Qed.

(* ---------- membership in the position lists ---------- *)

Lemma cpos_in (cl : list (cload Q)) y : In y (cpos cl) ->
  exists l, In l cl /\ y = cl_t l /\ interior y.
Proof.
  unfold cpos. rewrite in_map_iff. intros (l & <- & Hl). apply filter_In in Hl.
  destruct Hl as [Hl He]. apply negb_true_iff, is_extreme_false in He. eauto.
Qed.

Lemma cpos_intro (cl : list (cload Q)) l : In l cl -> interior (cl_t l) -> In (cl_t l) (cpos cl).
Proof.
  intros Hl Hi. unfold cpos. apply in_map, filter_In. split; auto.
  apply negb_true_iff, is_extreme_false, Hi.
Qed.

Lemma dpos_in (dl : list (dload Q)) y : In y (dpos dl) ->
  exists l, In l dl /\ (y = dl_t0 l \/ y = dl_t1 l) /\ interior y.
Proof.
  unfold dpos. rewrite in_flat_map. intros (l & Hl & Hy). exists l. split; auto.
  apply in_app_or in Hy. destruct Hy as [Hy|Hy].
  - destruct (is_extreme (dl_t0 l)) eqn:E; [contradiction|].
    destruct Hy as [<-|[]]. split; auto. apply is_extreme_false, E.
  - destruct (is_extreme (dl_t1 l)) eqn:E; [contradiction|].
    destruct Hy as [<-|[]]. split; auto. apply is_extreme_false, E.
Qed.

Lemma dpos_intro0 (dl : list (dload Q)) l : In l dl -> interior (dl_t0 l) -> In (dl_t0 l) (dpos dl).
Proof.
  intros Hl Hi. unfold dpos. apply in_flat_map. exists l. split; auto.
  apply in_or_app. left. apply is_extreme_false in Hi. rewrite Hi. left; reflexivity.
Qed.

Lemma dpos_intro1 (dl : list (dload Q)) l : In l dl -> interior (dl_t1 l) -> In (dl_t1 l) (dpos dl).
Proof.
  intros Hl Hi. unfold dpos. apply in_flat_map. exists l. split; auto.
  apply in_or_app. right. apply is_extreme_false in Hi. rewrite Hi. left; reflexivity.
Qed.

(* ---------- uniform cuts ---------- *)

Definition ucut (n i : nat) : Q := inject_Z (Z.of_nat i) / inject_Z (Z.of_nat n).

Lemma uniform_spec (n : nat) : uniform n = map (ucut n) (seq 0 n) ++ [1].
Proof. reflexivity. Qed.

Lemma ucut_unit n i : (i < n)%nat -> in_unit (ucut n i).
Proof.
  intros H. unfold ucut, in_unit.
  assert (H0 : 0 <= inject_Z (Z.of_nat i)) by (change 0 with (inject_Z 0); rewrite <- Zle_Qle; lia).
  assert (H1 : inject_Z (Z.of_nat i) <= inject_Z (Z.of_nat n)) by (rewrite <- Zle_Qle; lia).
  assert (H2 : 0 < inject_Z (Z.of_nat n)) by (change 0 with (inject_Z 0); rewrite <- Zlt_Qlt; lia).
  split.
  - apply Qle_shift_div_l; auto; try lra.
  - apply Qle_shift_div_r; auto; try lra.
Qed.

Lemma ucut_0 n : (0 < n)%nat -> ucut n 0 == 0.
Proof. intros H. unfold ucut. cbn. unfold Qdiv. ring. Qed.

Lemma uniform_unit n y : In y (uniform n) -> in_unit y.
Proof.
  rewrite uniform_spec. intros H. apply in_app_or in H. destruct H as [H|[<-|[]]].
  - apply in_map_iff in H. destruct H as (i & <- & Hi). apply in_seq in Hi.
    apply ucut_unit. lia.
  - unfold in_unit. lra.
Qed.

Lemma far_cons (r : Q) rest t :
  far_from_all (r :: rest) t = negb (Qle_bool (Qabs (r - t)) (1 # 1000)) && far_from_all rest t.
Proof. reflexivity. Qed.

Lemma far_in (req : list Q) t r : far_from_all req t = true -> In r req -> (1 # 1000) < Qabs (r - t).
Proof.
  induction req as [|x rest IH]; intros H Hr; [destruct Hr|].
  rewrite far_cons in H. apply andb_true_iff in H. destruct H as [H1 H2].
  destruct Hr as [<-|Hr]; auto.
  apply negb_true_iff, Qle_bool_false in H1. exact H1.
Qed.

Lemma far_rej0 (rest : list Q) t : t == 0 -> far_from_all (0 :: rest) t = false.
Proof.
  intros H. rewrite far_cons.
  assert (E : Qle_bool (Qabs (0 - t)) (1 # 1000) = true) by (apply Qle_bool_iff; qabs).
  rewrite E. reflexivity.
Qed.

Lemma far_rej1 (a : Q) (rest : list Q) : far_from_all (a :: 1 :: rest) 1 = false.
Proof.
  rewrite !far_cons.
  assert (E : Qle_bool (Qabs (1 - 1)) (1 # 1000) = true) by (apply Qle_bool_iff; qabs).
  rewrite E. cbn. apply andb_false_r.
Qed.

Lemma filter_len {A} (p : A -> bool) l : (length (filter p l) <= length l)%nat.
Proof. induction l; cbn; auto. destruct (p a); cbn; lia. Qed.

Lemma filtered_len (cl : list (cload Q)) (dl : list (dload Q)) n : (0 < n)%nat ->
  (length (filter (far_from_all (required_positions cl dl)) (uniform n)) + 1 <= n)%nat.
Proof.
  intros Hn. rewrite uniform_spec. destruct n as [|m]; [lia|].
  change (seq 0 (S m)) with (0%nat :: seq 1 m).
  rewrite filter_app. cbn [map filter].
  change (required_positions cl dl) with (0 :: 1 :: cpos cl ++ dpos dl).
  rewrite far_rej0 by (apply ucut_0; lia).
  rewrite far_rej1. rewrite app_nil_r.
  pose proof (filter_len (far_from_all (0 :: 1 :: cpos cl ++ dpos dl)) (map (ucut (S m)) (seq 1 m))) as H.
  rewrite map_length, seq_length in H. lia.
Qed.

(* ---------- the position list of a loaded bar ---------- *)

Definition lowpos (y : Q) : Prop := 0 <= y /\ y + eps <= 1.

Lemma interior_low y : in_unit y -> interior y -> lowpos y.
Proof. unfold in_unit, interior, lowpos. intros [H0 H1] [H2 H3]. split; auto. qabs. Qed.

Lemma dedupe_cover (l : list Q) y : In y l -> exists k, In k (dedupe l) /\ Qabs (k - y) < eps.
Proof.
  destruct l as [|h rest]; [intros []|]. intros H. cbn [dedupe].
  destruct H as [<-|H].
  - exists h. split; [left; reflexivity | qabs].
  - apply dd_cover; assumption.
Qed.

Lemma slice_positions_ok : forall (cl : list (cload Q)) (dl : list (dload Q)) (n : nat),
  loads_in_unit cl dl -> (0 < n)%nat ->
  chain_ok (slice_positions cl dl n) cl dl /\
  (2 <= length (slice_positions cl dl n) <= n + 1 + n_load_positions cl dl)%nat.
Proof.
  intros cl dl n [Hcl Hdl] Hn.
  unfold slice_positions.
  set (req := required_positions cl dl).
  set (flt := filter (far_from_all req) (uniform n)).
  set (l' := 0 :: (cpos cl ++ dpos dl) ++ flt).
  assert (Hl : req ++ flt = 0 :: 1 :: (cpos cl ++ dpos dl) ++ flt) by reflexivity.
  (* every element other than the end 1 is low *)
  assert (Hlow : forall y, In y l' -> lowpos y).
  { intros y [<-|Hy]; [unfold lowpos, eps; split; lra|].
    apply in_app_or in Hy. destruct Hy as [Hy|Hy].
    - apply in_app_or in Hy. destruct Hy as [Hy|Hy].
      + apply cpos_in in Hy. destruct Hy as (l & Hin & -> & Hi).
        apply interior_low; auto.
      + apply dpos_in in Hy. destruct Hy as (l & Hin & Hor & Hi).
        apply interior_low; auto. destruct (Hdl l Hin). destruct Hor as [->| ->]; auto.
    - unfold flt in Hy. apply filter_In in Hy. destruct Hy as [Hu Hf].
      apply uniform_unit in Hu. destruct Hu as [Hu0 Hu1].
      assert (H1 : (1 # 1000) < Qabs (1 - y)) by (apply (far_in req); auto; right; left; reflexivity).
      split; auto. qabs. }
  set (S := sort (req ++ flt)).
  assert (Hperm : Permutation (1 :: l') S).
  { unfold S. rewrite Hl. eapply perm_trans; [|apply sort_perm]. apply perm_swap. }
  assert (Hsorted : StronglySorted Qle S) by apply sort_sorted.
  (* S = front ++ [1] *)
  assert (Hne : S <> []).
  { intro E. rewrite E in Hperm. apply Permutation_sym, Permutation_nil in Hperm. discriminate. }
  destruct (exists_last Hne) as (front & z & HS).
  assert (Hz : z = 1).
  { assert (Hzin : In z (1 :: l')).
    { apply (Permutation_in _ (Permutation_sym Hperm)). rewrite HS. apply in_or_app. right; left; reflexivity. }
    destruct Hzin as [E|Hzin]; auto. exfalso.
    apply Hlow in Hzin. destruct Hzin as [_ Hz1].
    assert (H1in : In 1 S) by (apply (Permutation_in _ Hperm); left; reflexivity).
    rewrite HS in H1in, Hsorted. apply in_app_or in H1in. destruct H1in as [H1in|[E|[]]].
    - clear - Hsorted H1in Hz1. induction front as [|a f IH]; [destruct H1in|].
      cbn in Hsorted. inversion Hsorted as [|? ? Hs' Hf']; subst.
      destruct H1in as [->|H1in]; auto.
      rewrite Forall_forall in Hf'. specialize (Hf' z).
      assert (1 <= z) by (apply Hf'; apply in_or_app; right; left; reflexivity).
      unfold eps in *. lra.
    - subst z. unfold eps in *. lra. }
  subst z.
  assert (Hpf : Permutation l' front).
  { rewrite HS in Hperm. apply (Permutation_cons_inv (a:=1)).
    eapply perm_trans; [exact Hperm|]. apply Permutation_sym, Permutation_cons_append. }
  destruct front as [|h f'].
  { apply Permutation_sym, Permutation_nil in Hpf. discriminate. }
  assert (Hfront : forall y, In y (h :: f') -> lowpos y).
  { intros y Hy. apply Hlow. apply (Permutation_in _ (Permutation_sym Hpf)), Hy. }
  assert (Hh : h == 0).
  { destruct (Hfront h (or_introl eq_refl)) as [Hh0 _].
    assert (H0in : In 0 (h :: f')) by (apply (Permutation_in _ Hpf); left; reflexivity).
    destruct H0in as [->|H0in]; [reflexivity|].
    rewrite HS in Hsorted. cbn in Hsorted. inversion Hsorted as [|? ? Hs' Hf']; subst.
    rewrite Forall_forall in Hf'. assert (h <= 0) by (apply Hf', in_or_app; auto).
    lra. }
  assert (Hd : dedupe S = h :: dedupe_from h f' ++ [1]).
  { rewrite HS. cbn [app dedupe]. f_equal. apply dd_last.
    intros y Hy. apply Hfront in Hy. destruct Hy; assumption. }
  fold S. split.
  - unfold chain_ok. split; [|split; [|split; [|split]]].
    + rewrite Hd. exists h, (dedupe_from h f' ++ [1]). split; auto.
    + rewrite Hd. exists (h :: dedupe_from h f'), 1. split; [reflexivity|reflexivity].
    + rewrite HS in *. cbn [app dedupe] in *. inversion Hsorted as [|? ? Hs' Hf']; subst.
      destruct (dd_sorted _ h Hs' Hf') as [D1 D2]. unfold increasing. constructor; assumption.
    + intros l Hin Hi.
      assert (HinS : In (cl_t l) S).
      { apply (Permutation_in _ Hperm). right. right. apply in_or_app. left.
        apply in_or_app. left. apply cpos_intro; assumption. }
      apply dedupe_cover in HinS. destruct HinS as (k & Hk & Hkd). exists k. split; assumption.
    + intros l Hin. split; intros Hi.
      * assert (HinS : In (dl_t0 l) S).
        { apply (Permutation_in _ Hperm). right. right. apply in_or_app. left.
          apply in_or_app. right. apply dpos_intro0; assumption. }
        apply dedupe_cover in HinS. destruct HinS as (k & Hk & Hkd). exists k. split; assumption.
      * assert (HinS : In (dl_t1 l) S).
        { apply (Permutation_in _ Hperm). right. right. apply in_or_app. left.
          apply in_or_app. right. apply dpos_intro1; assumption. }
        apply dedupe_cover in HinS. destruct HinS as (k & Hk & Hkd). exists k. split; assumption.
  - split.
    + rewrite Hd. cbn [length]. rewrite app_length. cbn. lia.
    + assert (HlenS : length S = length (req ++ flt)).
      { unfold S. symmetry. apply Permutation_length, sort_perm. }
      assert (Hdl' : (length (dedupe S) <= length S)%nat).
      { rewrite HS. cbn [app dedupe length]. pose proof (dd_length (f' ++ [1]) h). lia. }
      rewrite Hl in HlenS. cbn [length] in HlenS. rewrite !app_length in HlenS.
      pose proof (filtered_len cl dl n Hn) as Hfl. fold req in Hfl. fold flt in Hfl.
      unfold n_load_positions. lia.
Qed.

(* ---------- nodes of a bar ---------- *)

Definition same_pos (n m : pnode Q) : Prop :=
  pn_t n = pn_t m /\ pn_x n = pn_x m /\ pn_y n = pn_y m.

Lemma apply_dist_from_same (b : bar Q) dl : forall rest a a0, same_pos a a0 ->
  Forall2 same_pos (apply_dist_from b dl a rest) (a0 :: rest).
Proof.
  induction rest as [|c rest IH]; intros a a0 H; cbn [apply_dist_from].
  - constructor; [assumption|constructor].
  - constructor.
    + destruct H as (H1 & H2 & H3). repeat split; cbn; assumption.
    + apply IH. repeat split; reflexivity.
Qed.

Lemma apply_dist_same (b : bar Q) dl l : Forall2 same_pos (apply_dist b dl l) l.
Proof.
  destruct l as [|a rest]; [constructor|]. cbn [apply_dist].
  apply apply_dist_from_same. repeat split; reflexivity.
Qed.

Lemma same_map_t l1 l2 : Forall2 same_pos l1 l2 -> map (@pn_t Q) l1 = map (@pn_t Q) l2.
Proof. induction 1 as [|x y ? ? (H1 & _) ? IH]; cbn; [reflexivity|]. rewrite H1, IH. reflexivity. Qed.

Lemma same_in l1 l2 : Forall2 same_pos l1 l2 -> forall nd, In nd l1 -> exists nd', In nd' l2 /\ same_pos nd nd'.
Proof.
  induction 1 as [|x y ? ? Hs ? IH]; intros nd Hin; [destruct Hin|].
  destruct Hin as [<-|Hin].
  - exists y. split; [left; reflexivity | assumption].
  - destruct (IH nd Hin) as (nd' & H1 & H2). exists nd'. split; [right; assumption | assumption].
Qed.

Lemma mk_node_t (b : bar Q) t ext : pn_t (mk_node b t ext) = t.
Proof. reflexivity. Qed.

Lemma mk_node_xy (b : bar Q) t ext :
  pn_x (mk_node b t ext) == b_x1 b + t * (b_x2 b - b_x1 b) /\
  pn_y (mk_node b t ext) == b_y1 b + t * (b_y2 b - b_y1 b).
Proof. unfold mk_node, point_at. cbn. split; field. Qed.

Lemma map_pn_t_mk (b : bar Q) (e : Q -> tor Q) l :
  map (@pn_t Q) (map (fun t => mk_node b t (e t)) l) = l.
Proof. induction l as [|x r IH]; cbn [map]; [reflexivity|]. rewrite IH. reflexivity. Qed.

Lemma mk_in_xy (b : bar Q) (e : Q -> tor Q) l nd : In nd (map (fun t => mk_node b t (e t)) l) ->
  pn_x nd == b_x1 b + pn_t nd * (b_x2 b - b_x1 b) /\
  pn_y nd == b_y1 b + pn_t nd * (b_y2 b - b_y1 b).
Proof. intros H. apply in_map_iff in H. destruct H as (t & <- & _). apply mk_node_xy. Qed.

Lemma chain_ok_01 (cl : list (cload Q)) (dl : list (dload Q)) :
  (forall l, In l cl -> ~ interior (cl_t l)) -> dl = [] -> chain_ok [0; 1] cl dl.
Proof.
  intros Hcl ->. unfold chain_ok. split; [|split; [|split; [|split]]].
  - exists 0, [1]. split; reflexivity.
  - exists [0], 1. split; reflexivity.
  - unfold increasing. repeat constructor. unfold eps. lra.
  - intros l Hl Hi. exfalso. exact (Hcl l Hl Hi).
  - intros l [].
Qed.

Lemma axial_facts (b : bar Q) : is_axial b = true ->
  b_dl b = [] /\ forall l, In l (b_cl b) -> ~ interior (cl_t l).
Proof.
  unfold is_axial. destruct (b_dl b) as [|d r]; [|discriminate]. intros H. split; [reflexivity|].
  apply andb_true_iff in H. destruct H as [H _]. apply andb_true_iff in H. destruct H as [H _].
  rewrite forallb_forall in H. intros l Hl Hi. specialize (H l Hl).
  apply andb_true_iff in H. destruct H as [H _].
  apply is_extreme_false in Hi. unfold is_extreme in Hi. apply orb_false_iff in Hi. destruct Hi as [H1 H2].
  unfold cl_nodal in H. rewrite H1, H2 in H. discriminate.
Qed.

Lemma unloaded_facts (b : bar Q) : has_loads b = false -> b_cl b = [] /\ b_dl b = [].
Proof.
  unfold has_loads. destruct (b_cl b); [|discriminate]. destruct (b_dl b); [|discriminate]. auto.
Qed.

Lemma chain_ok_uniform6 : chain_ok (uniform (F:=Q) c_slices_unloaded) [] [].
Proof.
  unfold chain_ok. split; [|split; [|split; [|split]]].
  - eexists _, _. split; [vm_compute; reflexivity | vm_compute; reflexivity].
  - exists (map (ucut 6) (seq 0 6)), 1. split; reflexivity.
  - unfold increasing. vm_compute uniform.
    repeat constructor; apply Qle_bool_iff; vm_compute; reflexivity.
  - intros l [].
  - intros l [].
Qed.

Lemma slice_bar_chain : forall (b : bar Q), loads_in_unit (b_cl b) (b_dl b) ->
  let nodes := slice_bar b in
  chain_ok (map (@pn_t Q) nodes) (b_cl b) (b_dl b) /\
  (forall nd, In nd nodes ->
     pn_x nd == b_x1 b + pn_t nd * (b_x2 b - b_x1 b) /\
     pn_y nd == b_y1 b + pn_t nd * (b_y2 b - b_y1 b)) /\
  (is_axial b = true -> length nodes = 2%nat) /\
  (is_axial b = false -> has_loads b = false -> length nodes = 7%nat) /\
  (is_axial b = false -> has_loads b = true ->
     (2 <= length nodes <= 11 + n_load_positions (b_cl b) (b_dl b))%nat).
Proof.
  intros b Hu nodes. unfold slice_bar in nodes.
  destruct (is_axial b) eqn:Eax.
  - (* axial *)
    destruct (axial_facts b Eax) as [Hdl Hcl].
    assert (Hch : chain_ok [0; 1] (b_cl b) (b_dl b)) by (apply chain_ok_01; assumption).
    destruct (has_loads b); subst nodes.
    + split; [exact Hch|]. split.
      * intros nd [<-|[<-|[]]]; apply mk_node_xy.
      * split; [reflexivity|]. split; intros; discriminate.
    + split; [exact Hch|]. split.
      * intros nd [<-|[<-|[]]]; apply mk_node_xy.
      * split; [reflexivity|]. split; intros; discriminate.
  - destruct (has_loads b) eqn:Ehl.
    + (* loaded *)
      set (ts := slice_positions (b_cl b) (b_dl b) c_slices_loaded) in *.
      set (base := map (fun t => mk_node b t (ext_at b t)) ts) in *.
      pose proof (apply_dist_same b (b_dl b) base) as Hsame. fold nodes in Hsame.
      assert (Hn : (0 < c_slices_loaded)%nat) by (unfold c_slices_loaded; lia).
      destruct (slice_positions_ok (b_cl b) (b_dl b) c_slices_loaded Hu Hn) as [Hch Hlen].
      fold ts in Hch, Hlen.
      assert (Hts : map (@pn_t Q) nodes = ts).
      { rewrite (same_map_t _ _ Hsame). unfold base. apply (map_pn_t_mk b (ext_at b)). }
      split; [rewrite Hts; exact Hch|]. split.
      * intros nd Hin. destruct (same_in _ _ Hsame nd Hin) as (nd' & Hin' & (H1 & H2 & H3)).
        rewrite H1, H2, H3. unfold base in Hin'. apply (mk_in_xy b (ext_at b) ts nd' Hin').
      * split; [intros; discriminate|]. split; [intros; discriminate|]. intros _ _.
        assert (Hl : length nodes = length ts).
        { rewrite <- Hts. symmetry. apply map_length. }
        rewrite Hl. unfold c_slices_loaded in Hlen. lia.
    + (* unloaded *)
      destruct (unloaded_facts b Ehl) as [Hcl Hdl]. rewrite Hcl, Hdl.
      assert (Hts : map (@pn_t Q) nodes = uniform c_slices_unloaded).
      { subst nodes. apply (map_pn_t_mk b (fun _ => tor0)). }
      split; [rewrite Hts; exact chain_ok_uniform6|]. split.
      * intros nd Hin. subst nodes. apply (mk_in_xy b (fun _ => tor0) _ nd Hin).
      * split; [intros; discriminate|]. split; [|intros; discriminate]. intros _ _.
        subst nodes. rewrite map_length. reflexivity.
Qed.

Lemma own_weight_in_unit (b : bar Q) : loads_in_unit (b_cl b) (b_dl b) ->
  loads_in_unit (b_cl (with_own_weight b)) (b_dl (with_own_weight b)).
Proof.
  intros [Hcl Hdl]. split; [exact Hcl|]. cbn [with_own_weight b_dl].
  intros l Hl. apply in_app_or in Hl. destruct Hl as [Hl|[<-|[]]]; [auto|].
  cbn. unfold in_unit. split; split; lra.
Qed.

Lemma preprocess_bar_chain : forall (w : bool) (b : bar Q), loads_in_unit (b_cl b) (b_dl b) ->
  let b' := if w then with_own_weight b else b in
  let nodes := preprocess_bar w b in
  chain_ok (map (@pn_t Q) nodes) (b_cl b') (b_dl b') /\
  (forall nd, In nd nodes ->
     pn_x nd == b_x1 b + pn_t nd * (b_x2 b - b_x1 b) /\
     pn_y nd == b_y1 b + pn_t nd * (b_y2 b - b_y1 b)) /\
  (is_axial b' = true -> length nodes = 2%nat) /\
  (is_axial b' = false -> has_loads b' = false -> length nodes = 7%nat) /\
  (is_axial b' = false -> has_loads b' = true ->
     (2 <= length nodes <= 11 + n_load_positions (b_cl b') (b_dl b'))%nat).
Proof.
  intros w b Hu. destruct w.
  - exact (slice_bar_chain (with_own_weight b) (own_weight_in_unit b Hu)).
  - exact (slice_bar_chain b Hu).
Qed.
