(* From the assembled system to equilibrium.  Model/Assemble.v builds the matrix and the load
   vector the solver receives; this file proves, for every list of sliced bars and every
   displacement vector, that row i of "K u = f" is the balance, at equation number i, between
   the forces the finite elements exert there (slice stiffness x the slice's own six
   displacements) and the nodal loads assembled there.  For an interior slice node, whose three
   numbers belong to it alone, the three rows are exactly the node equilibrium
   (RecoverProofs.node_equilibrium) that the chain theorems of C01, C02 and C03 assume. *)
From Coq Require Import ZArith QArith Qabs List Bool Arith Lia Field Lqa Permutation.
From Inkfem Require Import Num.NumOps Gen.GenStiffness Gen.GenLoads Gen.GenRecover Spec.Stiffness
  Spec.Superposition Model.Types Model.Slice Model.Dof Model.Assemble Model.Recover
  Proofs.AssembleProofs Proofs.RecoverProofs Proofs.FieldProofs.
Import ListNotations.
Local Open Scope Q_scope.

(* ---------- finite sums over 0 .. n-1 against sums over lists ---------- *)

Lemma fsum_qsum_swap (A : Type) n (l : list A) (f : nat -> A -> Q) :
  fsum n (fun i => qsum (map (f i) l)) == qsum (map (fun a => fsum n (fun i => f i a)) l).
Proof.
  induction l as [|a l IH]; cbn [map qsum fold_right].
  - apply fsum_zero.
  - change (fold_right Qplus 0 (map (fun a0 => fsum n (fun i => f i a0)) l)) with
      (qsum (map (fun a0 => fsum n (fun i => f i a0)) l)).
    rewrite <- IH, <- fsum_add. apply fsum_ext. intros i _. reflexivity.
Qed.

Lemma qsum_scale_r (A : Type) (f : A -> Q) (c : Q) (l : list A) :
  qsum (map f l) * c == qsum (map (fun x => f x * c) l).
Proof.
  induction l as [|a l IH]; cbn [map qsum fold_right]; [ring|].
  change (fold_right Qplus 0 ?x) with (qsum x) in *. rewrite <- IH. ring.
Qed.

Lemma fsum_pick n a (g : nat -> Q) : (a < n)%nat ->
  fsum n (fun j => if Nat.eqb a j then g j else 0) == g a.
Proof.
  intros Ha. rewrite <- (fsum_delta n a g Ha). apply fsum_ext. intros j _.
  destruct (Nat.eqb a j); ring.
Qed.

(* ---------- the finite elements of a structure ---------- *)

Record slice := { s_b : bar Q; s_na : pnode Q; s_nb : pnode Q; s_da : dof3; s_db : dof3 }.

Fixpoint slices_from (b : bar Q) (na : pnode Q) (da : dof3) (rest : list (pnode Q * dof3)) : list slice :=
  match rest with
  | [] => []
  | (nb, db) :: rest' => {| s_b := b; s_na := na; s_nb := nb; s_da := da; s_db := db |} :: slices_from b nb db rest'
  end.
Definition bar_slices (p : pbar Q) : list slice :=
  match combine (pb_nodes p) (pb_dofs p) with
  | [] => []
  | (na, da) :: rest => slices_from (pb_bar p) na da rest
  end.
Definition all_slices (bars : list (pbar Q)) : list slice := flat_map bar_slices bars.

Definition s_nums (sl : slice) : list nat := slice_numbers (s_da sl) (s_db sl).
Definition s_k (sl : slice) : list (list Q) :=
  stiff_gen (b_L (s_b sl)) (b_c (s_b sl)) (b_s (s_b sl)) (pn_t (s_na sl)) (pn_t (s_nb sl))
            (b_E (s_b sl)) (b_A (s_b sl)) (b_I (s_b sl)).
Definition s_contribs (sl : slice) : list (nat * nat * Q) :=
  slice_contribs (s_b sl) (s_na sl) (s_nb sl) (s_da sl) (s_db sl).

Lemma bar_contribs_from_slices b : forall rest na da,
  bar_contribs_from b na da rest = flat_map s_contribs (slices_from b na da rest).
Proof.
  induction rest as [|[nb db] rest IH]; intros na da; cbn [bar_contribs_from slices_from flat_map]; [reflexivity|].
  rewrite IH. reflexivity.
Qed.

Lemma flat_map_flat_map (A B C : Type) (f : B -> list C) (g : A -> list B) (l : list A) :
  flat_map f (flat_map g l) = flat_map (fun a => flat_map f (g a)) l.
Proof. induction l as [|a l IH]; cbn; [reflexivity|]. rewrite flat_map_app, IH. reflexivity. Qed.

Lemma all_contribs_slices (bars : list (pbar Q)) :
  all_contribs bars = flat_map s_contribs (all_slices bars).
Proof.
  unfold all_contribs, all_slices. rewrite flat_map_flat_map. apply flat_map_ext. intros p.
  unfold bar_contribs, bar_slices. destruct (combine (pb_nodes p) (pb_dofs p)) as [|[na da] rest]; [reflexivity|].
  apply bar_contribs_from_slices.
Qed.

(* ---------- the force an element exerts at each of its six numbers ---------- *)

(* entry p of (slice stiffness as assembled) x (the slice's own displacements) *)
Definition s_force (u : list Q) (sl : slice) (p : nat) : Q :=
  qsum (map (fun q => filtered (entry (s_k sl) p q) * uget u (nth q (s_nums sl) 0%nat)) (seq 0 6)).
Definition s_fterms (u : list Q) (sl : slice) : list (nat * Q) :=
  map (fun p => (nth p (s_nums sl) 0%nat, s_force u sl p)) (seq 0 6).

Definition nums_below (n : nat) (sl : slice) : Prop := Forall (fun d => (d < n)%nat) (s_nums sl).

Lemma fraw_at_map_seq (g : nat -> nat * Q) (l : list nat) i :
  fraw_at (map g l) i == qsum (map (fun p => if Nat.eqb (fst (g p)) i then snd (g p) else 0) l).
Proof.
  induction l as [|a l IH]; cbn [map qsum fold_right]; [apply fraw_at_nil|].
  rewrite fraw_at_cons, IH. reflexivity.
Qed.

Lemma nth_below n (ds : list nat) q : Forall (fun d => (d < n)%nat) ds -> (q < length ds)%nat -> (nth q ds 0 < n)%nat.
Proof. intros H Hq. rewrite Forall_forall in H. apply H. apply nth_In. exact Hq. Qed.

Lemma s_nums_length sl : length (s_nums sl) = 6%nat.
Proof. reflexivity. Qed.

(* one finite element: its rows of K times u are its forces, placed at its numbers *)
Lemma slice_row_times n (u : list Q) (sl : slice) i : nums_below n sl ->
  fsum n (fun j => placed (s_k sl) (s_nums sl) i j * uget u j) == fraw_at (s_fterms u sl) i.
Proof.
  intros Hn. unfold s_fterms. rewrite fraw_at_map_seq. cbn [fst snd].
  unfold placed.
  transitivity (fsum n (fun j => qsum (map (fun p => qsum (map (fun q =>
      (if Nat.eqb (nth p (s_nums sl) 0%nat) i && Nat.eqb (nth q (s_nums sl) 0%nat) j
       then filtered (entry (s_k sl) p q) else 0) * uget u j) (seq 0 6))) (seq 0 6)))).
  { apply fsum_ext. intros j _. rewrite qsum_scale_r. apply qsum_ext. intros p.
    rewrite qsum_scale_r. reflexivity. }
  rewrite fsum_qsum_swap. apply qsum_ext_in. intros p Hp.
  rewrite fsum_qsum_swap.
  destruct (Nat.eqb (nth p (s_nums sl) 0%nat) i) eqn:Ep; cbn [andb].
  - unfold s_force. apply qsum_ext_in. intros q Hq.
    apply in_seq in Hq.
    rewrite <- (fsum_pick n (nth q (s_nums sl) 0%nat) (fun j => filtered (entry (s_k sl) p q) * uget u j)).
    + apply fsum_ext. intros j _. destruct (Nat.eqb (nth q (s_nums sl) 0%nat) j); ring.
    + apply nth_below; [exact Hn | rewrite s_nums_length; lia].
  - transitivity (qsum (map (fun _ : nat => 0) (seq 0 6))); [| apply qsum_map_zero].
    apply qsum_ext. intros q. rewrite <- (fsum_zero n). apply fsum_ext. intros j _. ring.
Qed.

(* the whole structure: row i of (accumulated matrix) x u is the sum of the element forces
   placed at number i *)
Definition k_terms (u : list Q) (bars : list (pbar Q)) : list (nat * Q) :=
  flat_map (s_fterms u) (all_slices bars).

Theorem raw_row_is_element_forces n (u : list Q) (bars : list (pbar Q)) i :
  Forall (nums_below n) (all_slices bars) ->
  fsum n (fun j => kraw_at (all_contribs bars) i j * uget u j) == fraw_at (k_terms u bars) i.
Proof.
  intros Hn. rewrite all_contribs_slices. unfold k_terms.
  induction (all_slices bars) as [|sl sls IH]; cbn [flat_map].
  - rewrite fraw_at_nil. rewrite <- (fsum_zero n). apply fsum_ext. intros j _. rewrite kraw_at_nil. ring.
  - inversion Hn as [|? ? H1 H2]; subst.
    rewrite fraw_at_app, <- IH by assumption. rewrite <- (slice_row_times n u sl i H1), <- fsum_add.
    apply fsum_ext. intros j _. rewrite kraw_at_app. unfold s_contribs at 1.
    rewrite slice_contribs_placed. fold (s_k sl). fold (s_nums sl). ring.
Qed.

(* ---------- from the system handed to the solver to its rows before the supports ---------- *)

Lemma fold_left_plus_fsum (g : nat -> Q) : forall l a,
  fold_left (fun acc j => acc + g j) l a == a + fold_right (fun j acc => g j + acc) 0 l.
Proof.
  induction l as [|x l IH]; intros a; cbn [fold_left fold_right]; [ring|]. rewrite IH. ring.
Qed.

Lemma row_times_fsum (cs : list (nat * nat * Q)) sup n (u : nat -> Q) i :
  row_times cs sup n u i == fsum n (fun j => k_final cs sup i j * u j).
Proof.
  unfold row_times, fsum. cbn [nadd nmul n0 QOps].
  rewrite (fold_left_plus_fsum (fun j => k_final cs sup i j * u j)). ring.
Qed.

(* u solves the system the model hands to the solver (C17: K = k_final, f = f_final) *)
Definition solves (n : nat) (bars : list (pbar Q)) (sup : list nat) (u : list Q) : Prop :=
  forall i, (i < n)%nat ->
    row_times (all_contribs bars) sup n (uget u) i == f_final (all_fterms bars) sup i.

Lemma delta_diag i : delta (F:=Q) i i = 1.
Proof. unfold delta. rewrite Nat.eqb_refl. reflexivity. Qed.

(* supported numbers: the solution is exactly zero there *)
Lemma solves_supported n bars sup u i : solves n bars sup u -> (i < n)%nat ->
  is_supported sup i = true -> uget u i == 0.
Proof.
  intros Hs Hi Hsup. specialize (Hs i Hi). rewrite row_times_fsum in Hs.
  unfold f_final in Hs. rewrite Hsup in Hs. cbn [n0 QOps] in Hs. rewrite <- Hs.
  rewrite <- (fsum_delta n i (uget u) Hi). apply fsum_ext. intros j _.
  unfold k_final. rewrite Hsup. cbn [orb]. unfold delta. cbn [n0 n1 QOps].
  destruct (Nat.eqb i j); ring.
Qed.

Lemma is_supported_neq sup i j : is_supported sup i = false -> is_supported sup j = true -> Nat.eqb i j = false.
Proof.
  intros Hi Hj. destruct (Nat.eqb_spec i j) as [->|]; [congruence | reflexivity].
Qed.

(* every other equation with at least one stiffness term: the element forces at that number
   balance the nodal loads assembled there *)
Theorem row_is_equilibrium n bars sup u i :
  Forall (nums_below n) (all_slices bars) -> solves n bars sup u -> (i < n)%nat ->
  is_supported sup i = false -> row_empty (all_contribs bars) i = false ->
  fraw_at (k_terms u bars) i == fraw_at (all_fterms bars) i.
Proof.
  intros Hn Hs Hi Hsup Hrow. pose proof (Hs i Hi) as Hrowi. rewrite row_times_fsum in Hrowi.
  unfold f_final in Hrowi. rewrite Hsup in Hrowi. rewrite <- Hrowi.
  rewrite <- (raw_row_is_element_forces n u bars i Hn).
  apply fsum_ext. intros j Hj. unfold k_final. rewrite Hsup, Hrow. cbn [orb].
  destruct (is_supported sup j) eqn:Ej.
  - rewrite (solves_supported n bars sup u j Hs Hj Ej). ring.
  - reflexivity.
Qed.

(* an equation without any stiffness term (a number no finite element refers to) *)
Lemma row_empty_trivial n bars sup u i : solves n bars sup u -> (i < n)%nat ->
  is_supported sup i = false -> row_empty (all_contribs bars) i = true ->
  uget u i == fraw_at (all_fterms bars) i.
Proof.
  intros Hs Hi Hsup Hrow. specialize (Hs i Hi). rewrite row_times_fsum in Hs.
  unfold f_final in Hs. rewrite Hsup in Hs. rewrite <- Hs.
  rewrite <- (fsum_delta n i (uget u) Hi). apply fsum_ext. intros j _.
  unfold k_final. rewrite Hsup, Hrow. cbn [orb].
  destruct (is_supported sup j); unfold delta; cbn [n0 n1 QOps]; destruct (Nat.eqb i j); ring.
Qed.

(* ---------- where a number occurs ---------- *)

Lemma fraw_at_notin (l : list (nat * Q)) i : (forall x, In x l -> fst x <> i) -> fraw_at l i == 0.
Proof.
  induction l as [|x l IH]; intros H; [apply fraw_at_nil|].
  rewrite fraw_at_cons. destruct (Nat.eqb_spec (fst x) i) as [E|_].
  - exfalso. exact (H x (or_introl eq_refl) E).
  - rewrite IH; [ring|]. intros y Hy. apply H. right. exact Hy.
Qed.

Fixpoint chain_slices (b : bar Q) (nds : list (pnode Q * dof3)) : list slice :=
  match nds with
  | [] => []
  | x :: rest =>
    match rest with
    | [] => []
    | y :: _ => {| s_b := b; s_na := fst x; s_nb := fst y; s_da := snd x; s_db := snd y |} :: chain_slices b rest
    end
  end.

Lemma slices_from_chain b : forall rest na da, slices_from b na da rest = chain_slices b ((na, da) :: rest).
Proof.
  induction rest as [|[nb db] rest IH]; intros na da; [reflexivity|].
  cbn [slices_from]. rewrite IH. reflexivity.
Qed.
Lemma bar_slices_chain p : bar_slices p = chain_slices (pb_bar p) (combine (pb_nodes p) (pb_dofs p)).
Proof.
  unfold bar_slices. destruct (combine (pb_nodes p) (pb_dofs p)) as [|[na da] rest]; [reflexivity|].
  apply slices_from_chain.
Qed.

Lemma chain_slices_app b : forall P x S,
  chain_slices b (P ++ x :: S) = chain_slices b (P ++ [x]) ++ chain_slices b (x :: S).
Proof.
  induction P as [|a P IH]; intros x S; [reflexivity|].
  destruct P as [|a' P'].
  - cbn [app chain_slices]. reflexivity.
  - change ((a :: a' :: P') ++ x :: S) with (a :: (a' :: P') ++ x :: S).
    change ((a :: a' :: P') ++ [x]) with (a :: (a' :: P') ++ [x]).
    specialize (IH x S).
    change (chain_slices b (a :: (a' :: P') ++ x :: S)) with
      ({| s_b := b; s_na := fst a; s_nb := fst a'; s_da := snd a; s_db := snd a' |} :: chain_slices b ((a' :: P') ++ x :: S)).
    change (chain_slices b (a :: (a' :: P') ++ [x])) with
      ({| s_b := b; s_na := fst a; s_nb := fst a'; s_da := snd a; s_db := snd a' |} :: chain_slices b ((a' :: P') ++ [x])).
    rewrite IH. reflexivity.
Qed.

Definition nds_numbers (nds : list (pnode Q * dof3)) : list nat := flat_map (fun x => d3_list (snd x)) nds.

Lemma chain_slices_numbers b : forall nds sl, In sl (chain_slices b nds) ->
  incl (s_nums sl) (nds_numbers nds).
Proof.
  induction nds as [|x rest IH]; intros sl H; [destruct H|].
  destruct rest as [|y rest']; [destruct H|].
  cbn [chain_slices] in H. destruct H as [<-|H].
  - unfold s_nums, slice_numbers, nds_numbers. cbn [s_da s_db flat_map].
    intros d Hd. apply in_app_or in Hd. apply in_or_app. destruct Hd as [Hd|Hd]; [left; exact Hd|].
    right. apply in_or_app. left. exact Hd.
  - intros d Hd. unfold nds_numbers. cbn [flat_map]. apply in_or_app. right. exact (IH sl H d Hd).
Qed.

Lemma s_fterms_numbers u sl : map fst (s_fterms u sl) = s_nums sl.
Proof.
  unfold s_fterms. rewrite map_map. cbn [fst]. unfold s_nums, slice_numbers, d3_list.
  destruct (s_da sl) as [[a b] c], (s_db sl) as [[d e] f]. reflexivity.
Qed.

Lemma fraw_chain_notin u b nds i : ~ In i (nds_numbers nds) ->
  fraw_at (flat_map (s_fterms u) (chain_slices b nds)) i == 0.
Proof.
  intros Hi. apply fraw_at_notin. intros x Hx E. apply Hi.
  apply in_flat_map in Hx as (sl & Hsl & Hx).
  apply (chain_slices_numbers b nds sl Hsl).
  rewrite <- s_fterms_numbers with (u := u). rewrite <- E. apply in_map. exact Hx.
Qed.

(* ---------- a number that belongs to one slice node only ---------- *)

Definition pbar_nds (p : pbar Q) : list (pnode Q * dof3) := combine (pb_nodes p) (pb_dofs p).
Definition bars_numbers (bars : list (pbar Q)) : list nat := flat_map (fun p => nds_numbers (pbar_nds p)) bars.

Lemma k_terms_bar_notin u p i : ~ In i (nds_numbers (pbar_nds p)) ->
  fraw_at (flat_map (s_fterms u) (bar_slices p)) i == 0.
Proof. intros H. rewrite bar_slices_chain. apply fraw_chain_notin. exact H. Qed.

Lemma k_terms_bars_notin u bars i : ~ In i (bars_numbers bars) -> fraw_at (k_terms u bars) i == 0.
Proof.
  unfold k_terms, all_slices. rewrite flat_map_flat_map.
  induction bars as [|p bars IH]; intros H; cbn [flat_map]; [apply fraw_at_nil|].
  unfold bars_numbers in H. cbn [flat_map] in H.
  rewrite fraw_at_app, IH, k_terms_bar_notin; [ring | |]; intro G; apply H; apply in_or_app; [left | right]; exact G.
Qed.

Lemma node_fterms_numbers (b : bar Q) x : map fst (node_fterms b x) = d3_list (snd x).
Proof. reflexivity. Qed.

Lemma fterms_nds_notin (b : bar Q) nds i : ~ In i (nds_numbers nds) ->
  fraw_at (flat_map (node_fterms b) nds) i == 0.
Proof.
  intros H. apply fraw_at_notin. intros x Hx E. apply H.
  apply in_flat_map in Hx as (nd & Hnd & Hx). unfold nds_numbers. apply in_flat_map. exists nd. split; [exact Hnd|].
  rewrite <- node_fterms_numbers with (b := b). rewrite <- E. apply in_map. exact Hx.
Qed.

Lemma fterms_bars_notin bars i : ~ In i (bars_numbers bars) -> fraw_at (all_fterms bars) i == 0.
Proof.
  unfold all_fterms. induction bars as [|p bars IH]; intros H; cbn [flat_map]; [apply fraw_at_nil|].
  unfold bars_numbers in H. cbn [flat_map] in H.
  rewrite fraw_at_app, IH; [| intro G; apply H; apply in_or_app; right; exact G].
  unfold bar_fterms. rewrite fterms_nds_notin; [ring|]. intro G; apply H; apply in_or_app; left; exact G.
Qed.

Lemma nds_numbers_app a b : nds_numbers (a ++ b) = nds_numbers a ++ nds_numbers b.
Proof. unfold nds_numbers. apply flat_map_app. Qed.

(* the numbers of node x1 occur nowhere else in the structure *)
Definition alone (i : nat) (B1 B2 : list (pbar Q)) (P S : list (pnode Q * dof3)) : Prop :=
  ~ In i (bars_numbers B1) /\ ~ In i (bars_numbers B2) /\ ~ In i (nds_numbers P) /\ ~ In i (nds_numbers S).

Section Interior.
Variables (n : nat) (sup : list nat) (u : list Q).
Variables (B1 B2 : list (pbar Q)) (p : pbar Q) (P S : list (pnode Q * dof3)) (x0 x1 x2 : pnode Q * dof3).
Let bars := B1 ++ p :: B2.
Let b := pb_bar p.
Hypothesis Hnds : pbar_nds p = P ++ x0 :: x1 :: x2 :: S.

Let sl01 := {| s_b := b; s_na := fst x0; s_nb := fst x1; s_da := snd x0; s_db := snd x1 |}.
Let sl12 := {| s_b := b; s_na := fst x1; s_nb := fst x2; s_da := snd x1; s_db := snd x2 |}.

Lemma k_terms_at_interior i :
  alone i B1 B2 (P ++ [x0]) (x2 :: S) ->
  fraw_at (k_terms u bars) i == fraw_at (s_fterms u sl01) i + fraw_at (s_fterms u sl12) i.
Proof.
  intros (H1 & H2 & H3 & H4).
  unfold k_terms, all_slices, bars. rewrite flat_map_app. cbn [flat_map]. rewrite !flat_map_app, !fraw_at_app.
  fold (all_slices B1). fold (all_slices B2). fold (k_terms u B1). fold (k_terms u B2).
  rewrite (k_terms_bars_notin u B1 i H1), (k_terms_bars_notin u B2 i H2).
  rewrite bar_slices_chain. fold (pbar_nds p). rewrite Hnds.
  rewrite (chain_slices_app (pb_bar p) P x0 (x1 :: x2 :: S)).
  change (chain_slices (pb_bar p) (x0 :: x1 :: x2 :: S)) with (sl01 :: sl12 :: chain_slices b (x2 :: S)).
  rewrite flat_map_app. cbn [flat_map]. rewrite !fraw_at_app.
  rewrite (fraw_chain_notin u (pb_bar p) (P ++ [x0]) i H3), (fraw_chain_notin u b (x2 :: S) i H4). ring.
Qed.

Lemma f_terms_at_interior i :
  alone i B1 B2 (P ++ [x0]) (x2 :: S) ->
  fraw_at (all_fterms bars) i == fraw_at (node_fterms b x1) i.
Proof.
  intros (H1 & H2 & H3 & H4).
  unfold all_fterms, bars. rewrite flat_map_app. cbn [flat_map]. rewrite !fraw_at_app.
  fold (all_fterms B1). fold (all_fterms B2).
  rewrite (fterms_bars_notin B1 i H1), (fterms_bars_notin B2 i H2).
  unfold bar_fterms. fold (pbar_nds p). rewrite Hnds.
  replace (P ++ x0 :: x1 :: x2 :: S) with ((P ++ [x0]) ++ x1 :: x2 :: S) by (rewrite <- app_assoc; reflexivity).
  rewrite flat_map_app.
  change (flat_map (node_fterms (pb_bar p)) (x1 :: x2 :: S)) with
    (node_fterms (pb_bar p) x1 ++ flat_map (node_fterms (pb_bar p)) (x2 :: S)).
  rewrite !fraw_at_app.
  rewrite (fterms_nds_notin (pb_bar p) (P ++ [x0]) i H3), (fterms_nds_notin (pb_bar p) (x2 :: S) i H4). unfold b. ring.
Qed.

(* the equation carrying a number of the interior node x1, in force form *)
Lemma interior_row i :
  Forall (nums_below n) (all_slices bars) -> solves n bars sup u -> (i < n)%nat ->
  is_supported sup i = false -> row_empty (all_contribs bars) i = false ->
  alone i B1 B2 (P ++ [x0]) (x2 :: S) ->
  fraw_at (s_fterms u sl01) i + fraw_at (s_fterms u sl12) i == fraw_at (node_fterms b x1) i.
Proof.
  intros Hn Hs Hi Hsup Hrow Hal.
  rewrite <- (k_terms_at_interior i Hal), <- (f_terms_at_interior i Hal).
  apply (row_is_equilibrium n bars sup u i Hn Hs Hi Hsup Hrow).
Qed.
End Interior.

(* ---------- element forces in the bar's own axes ---------- *)

Lemma s_force_unfiltered u sl p : no_tiny (s_k sl) -> (p < 6)%nat ->
  s_force u sl p == qsum (map (fun q => entry (s_k sl) p q * uget u (nth q (s_nums sl) 0%nat)) (seq 0 6)).
Proof.
  intros Hk Hp. unfold s_force. apply qsum_ext_in. intros q Hq. apply in_seq in Hq.
  rewrite (filtered_id (s_k sl) Hk p q Hp) by lia. reflexivity.
Qed.

(* stiffness in global axes x global displacements = local stiffness x local displacements,
   turned back into global axes (both end nodes) *)
Lemma s_force_rotated u (b : bar Q) (na nb : pnode Q) (da db : dof3) :
  let sl := {| s_b := b; s_na := na; s_nb := nb; s_da := da; s_db := db |} in
  no_tiny (s_k sl) -> ~ slice_len b na nb == 0 -> good_bar b ->
  let kd := mv (slice_k b na nb) (slice_d b u da db) in
  s_force u sl 0 == nth 0 kd 0 * b_c b - nth 1 kd 0 * b_s b /\
  s_force u sl 1 == nth 0 kd 0 * b_s b + nth 1 kd 0 * b_c b /\
  s_force u sl 2 == nth 2 kd 0 /\
  s_force u sl 3 == nth 3 kd 0 * b_c b - nth 4 kd 0 * b_s b /\
  s_force u sl 4 == nth 3 kd 0 * b_s b + nth 4 kd 0 * b_c b /\
  s_force u sl 5 == nth 5 kd 0.
Proof.
  intros sl Hk Hl (HE & HA & HI & HS) kd.
  assert (HL : ~ b_L b == 0) by (intro H; apply Hl; unfold slice_len; rewrite H; ring).
  assert (Ht : ~ pn_t nb - pn_t na == 0) by (intro H; apply Hl; unfold slice_len; rewrite H; ring).
  rewrite !(s_force_unfiltered u sl) by (exact Hk || lia).
  unfold kd, slice_k, slice_d, slice_len, node_local, node_global, to_local, t_fx, t_fy, t_mz.
  unfold sl, s_k, s_nums, slice_numbers, d3_list. cbn [s_b s_na s_nb s_da s_db fst snd].
  destruct da as [[a1 a2] a3], db as [[b1 b2] b3]. cbn [fst snd app nth].
  unfold stiff_gen, k_local, k_local_coeffs, mv, dot, vsum, entry, qsum.
  cbn [map seq nth fold_right combine fst snd nadd nmul nsub ndiv nopp nofZ n0 n1 QOps].
  generalize (uget u a1) (uget u a2) (uget u a3) (uget u b1) (uget u b2) (uget u b3). intros g1 g2 g3 g4 g5 g6.
  repeat split; field; auto.
Qed.

Lemma eqb_refl_true a : Nat.eqb a a = true. Proof. apply Nat.eqb_refl. Qed.
Lemma eqb_neq_false a b : a <> b -> Nat.eqb a b = false. Proof. apply Nat.eqb_neq. Qed.

(* ---------- the three rows of an interior slice node are its equilibrium ---------- *)

Theorem interior_node_equilibrium n sup u B1 B2 p P S x0 x1 x2 :
  let bars := B1 ++ p :: B2 in
  let b := pb_bar p in
  pbar_nds p = P ++ x0 :: x1 :: x2 :: S ->
  Forall (nums_below n) (all_slices bars) -> solves n bars sup u ->
  good_bar b -> b_c b * b_c b + b_s b * b_s b == 1 ->
  ~ slice_len b (fst x0) (fst x1) == 0 -> ~ slice_len b (fst x1) (fst x2) == 0 ->
  no_tiny (s_k {| s_b := b; s_na := fst x0; s_nb := fst x1; s_da := snd x0; s_db := snd x1 |}) ->
  no_tiny (s_k {| s_b := b; s_na := fst x1; s_nb := fst x2; s_da := snd x1; s_db := snd x2 |}) ->
  NoDup (d3_list (snd x1)) ->
  (forall i, In i (d3_list (snd x1)) ->
     (i < n)%nat /\ is_supported sup i = false /\ row_empty (all_contribs bars) i = false /\
     ~ In i (d3_list (snd x0)) /\ ~ In i (d3_list (snd x2)) /\
     alone i B1 B2 (P ++ [x0]) (x2 :: S)) ->
  node_equilibrium b u (fst x0) (fst x1) (fst x2) (snd x0) (snd x1) (snd x2).
Proof.
  intros bars b Hnds Hn Hs Hb Hcs Hl01 Hl12 Hk01 Hk12 Hnd Hpriv.
  destruct x0 as [n0 d0], x1 as [n1 d1], x2 as [n2 d2]. cbn [fst snd] in *.
  destruct (s_force_rotated u b n0 n1 d0 d1 Hk01 Hl01 Hb) as (_ & _ & _ & F3 & F4 & F5).
  destruct (s_force_rotated u b n1 n2 d1 d2 Hk12 Hl12 Hb) as (G0 & G1 & G2 & _ & _ & _).
  set (sl01 := {| s_b := b; s_na := n0; s_nb := n1; s_da := d0; s_db := d1 |}) in *.
  set (sl12 := {| s_b := b; s_na := n1; s_nb := n2; s_da := d1; s_db := d2 |}) in *.
  assert (Row : forall i, In i (d3_list d1) ->
            fraw_at (s_fterms u sl01) i + fraw_at (s_fterms u sl12) i == fraw_at (node_fterms b (n1, d1)) i).
  { intros i Hi. destruct (Hpriv i Hi) as (Hin & Hsup & Hrow & _ & _ & Hal).
    exact (interior_row n sup u B1 B2 p P S (n0, d0) (n1, d1) (n2, d2) Hnds i Hn Hs Hin Hsup Hrow Hal). }
  destruct d0 as [[a1 a2] a3], d1 as [[b1 b2] b3], d2 as [[c1 c2] c3].
  unfold d3_list in *. cbn [fst snd] in *.
  assert (Hb12 : b1 <> b2 /\ b1 <> b3 /\ b2 <> b3).
  { inversion Hnd as [|? ? N1 N2]; subst. inversion N2 as [|? ? N3 N4]; subst.
    repeat split; intro E; subst; [apply N1 | apply N1 | apply N3]; cbn; auto. }
  destruct Hb12 as (Hb12 & Hb13 & Hb23).
  pose proof (Row b1 ltac:(cbn; auto)) as R1. pose proof (Row b2 ltac:(cbn; auto)) as R2. pose proof (Row b3 ltac:(cbn; auto)) as R3.
  destruct (Hpriv b1 ltac:(cbn; auto)) as (_ & _ & _ & A1 & C1 & _).
  destruct (Hpriv b2 ltac:(cbn; auto)) as (_ & _ & _ & A2 & C2 & _).
  destruct (Hpriv b3 ltac:(cbn; auto)) as (_ & _ & _ & A3 & C3 & _).
  cbn [In] in A1, A2, A3, C1, C2, C3.
  rewrite node_fterms_at in R1, R2, R3. cbv zeta in R1, R2, R3.
  unfold s_fterms in R1, R2, R3. rewrite !fraw_at_map_seq in R1, R2, R3. cbn [fst snd] in R1, R2, R3.
  unfold sl01, sl12, s_nums, slice_numbers, d3_list in R1, R2, R3.
  cbn [s_da s_db fst snd app seq map nth qsum fold_right] in R1, R2, R3.
  rewrite ?eqb_refl_true in R1, R2, R3.
  repeat match type of R1 with context [Nat.eqb ?x ?y] => rewrite (eqb_neq_false x y) in R1 by (intro; subst; tauto) end.
  repeat match type of R2 with context [Nat.eqb ?x ?y] => rewrite (eqb_neq_false x y) in R2 by (intro; subst; tauto) end.
  repeat match type of R3 with context [Nat.eqb ?x ?y] => rewrite (eqb_neq_false x y) in R3 by (intro; subst; tauto) end.
  fold sl01 sl12 in R1, R2, R3.
  rewrite F3, G0 in R1. rewrite F4, G1 in R2. rewrite F5, G2 in R3.
  unfold node_equilibrium. cbv zeta.
  set (k01 := mv (slice_k b n0 n1) (slice_d b u (a1, a2, a3) (b1, b2, b3))) in *.
  set (k12 := mv (slice_k b n1 n2) (slice_d b u (b1, b2, b3) (c1, c2, c3))) in *.
  clearbody k01 k12.
  unfold to_global, t_fx, t_fy, t_mz in *. cbn [fst snd nadd nmul nsub QOps] in *.
  set (NX := fst (fst (pn_net n1))) in *. set (NY := snd (fst (pn_net n1))) in *. set (NZ := snd (pn_net n1)) in *.
  clearbody NX NY NZ.
  set (c := b_c b) in *. set (s := b_s b) in *. clearbody c s.
  set (X := nth 3 k01 0 + nth 0 k12 0 - NX). set (Y := nth 4 k01 0 + nth 1 k12 0 - NY).
  assert (E1 : X * c - Y * s == 0) by (unfold X, Y; lra).
  assert (E2 : X * s + Y * c == 0) by (unfold X, Y; lra).
  assert (HX : X == 0).
  { setoid_replace X with (X * (c * c + s * s)) by (rewrite Hcs; ring).
    setoid_replace (X * (c * c + s * s)) with (c * (X * c - Y * s) + s * (X * s + Y * c)) by ring.
    rewrite E1, E2. ring. }
  assert (HY : Y == 0).
  { setoid_replace Y with (Y * (c * c + s * s)) by (rewrite Hcs; ring).
    setoid_replace (Y * (c * c + s * s)) with (c * (X * s + Y * c) - s * (X * c - Y * s)) by ring.
    rewrite E1, E2. ring. }
  unfold X in HX. unfold Y in HY. repeat split; lra.
Qed.

(* ---------- every interior node of every bar: the chain hypothesis of C01 / C02 / C03 ---------- *)

(* node equilibrium at every interior node of a chain of (node, numbers) *)
Definition interior_ok (b : bar Q) (u : list Q) (nds : list (pnode Q * dof3)) : Prop :=
  forall P x0 x1 x2 S, nds = P ++ x0 :: x1 :: x2 :: S ->
    node_equilibrium b u (fst x0) (fst x1) (fst x2) (snd x0) (snd x1) (snd x2).

Lemma interior_ok_tail b u x nds : interior_ok b u (x :: nds) -> interior_ok b u nds.
Proof. intros H P x0 x1 x2 S E. apply (H (x :: P) x0 x1 x2 S). rewrite E. reflexivity. Qed.

Definition strip_load (x : pnode Q * dof3 * slice_load) : pnode Q * dof3 := fst x.

(* the parts of chain_ok that do not depend on the displacements *)
Fixpoint chain_static (b : bar Q) (na : pnode Q) (rest : list (pnode Q * dof3 * slice_load)) : Prop :=
  match rest with
  | [] => True
  | (nb, _, ld) :: rest' =>
    ~ slice_len b na nb == 0 /\
    lumped na nb (slice_len b na nb) (sl_p1 ld) (sl_q1 ld) (sl_m1 ld) (sl_p2 ld) (sl_q2 ld) (sl_m2 ld) /\
    chain_static b nb rest'
  end.

Lemma chain_ok_from_interior b u : forall rest na da,
  chain_static b na rest -> interior_ok b u ((na, da) :: map strip_load rest) -> chain_ok b u na da rest.
Proof.
  induction rest as [|[[nb db] ld] rest IH]; intros na da Hst Hint; [exact I|].
  cbn [chain_static] in Hst. destruct Hst as (Hl & Hlump & Hst').
  cbn [chain_ok]. split; [exact Hl|]. split; [exact Hlump|]. split.
  - destruct rest as [|[[nc dc] ld'] rest']; [exact I|].
    cbn [chain_static] in Hst'. destruct Hst' as (Hl' & _ & _). split; [exact Hl'|].
    exact (Hint [] (na, da) (nb, db) (nc, dc) (map strip_load rest') eq_refl).
  - apply IH; [exact Hst'|]. apply (interior_ok_tail b u (na, da)). exact Hint.
Qed.

(* what the numbering must provide: the three numbers of every interior slice node are its own
   (C16: interior slice nodes have numbers of their own), carry no support, and have a row *)
Definition interior_private (n : nat) (sup : list nat) (bars : list (pbar Q)) : Prop :=
  forall B1 p B2 P x0 x1 x2 S, bars = B1 ++ p :: B2 -> pbar_nds p = P ++ x0 :: x1 :: x2 :: S ->
    NoDup (d3_list (snd x1)) /\
    forall i, In i (d3_list (snd x1)) ->
      (i < n)%nat /\ is_supported sup i = false /\ row_empty (all_contribs bars) i = false /\
      ~ In i (d3_list (snd x0)) /\ ~ In i (d3_list (snd x2)) /\ alone i B1 B2 (P ++ [x0]) (x2 :: S).

(* geometry and stiffness of every finite element of a bar are sound *)
Definition slices_sound (p : pbar Q) : Prop :=
  good_bar (pb_bar p) /\ b_c (pb_bar p) * b_c (pb_bar p) + b_s (pb_bar p) * b_s (pb_bar p) == 1 /\
  forall sl, In sl (bar_slices p) -> ~ slice_len (pb_bar p) (s_na sl) (s_nb sl) == 0 /\ no_tiny (s_k sl).

Lemma chain_slices_mid b P x0 x1 S :
  In {| s_b := b; s_na := fst x0; s_nb := fst x1; s_da := snd x0; s_db := snd x1 |} (chain_slices b (P ++ x0 :: x1 :: S)).
Proof.
  rewrite chain_slices_app. apply in_or_app. right. cbn [chain_slices]. left. reflexivity.
Qed.

(* THEOREM: whatever solves the assembled system puts every interior slice node of every bar in
   equilibrium *)
Theorem system_gives_interior_equilibrium n sup u bars :
  Forall (nums_below n) (all_slices bars) -> interior_private n sup bars -> solves n bars sup u ->
  forall B1 p B2, bars = B1 ++ p :: B2 -> slices_sound p -> interior_ok (pb_bar p) u (pbar_nds p).
Proof.
  intros Hn Hpriv Hs B1 p B2 Hb (Hgood & Hcs & Hsl) P x0 x1 x2 S Hnds.
  destruct (Hpriv B1 p B2 P x0 x1 x2 S Hb Hnds) as (Hnd & Hi).
  subst bars.
  assert (H01 : In {| s_b := pb_bar p; s_na := fst x0; s_nb := fst x1; s_da := snd x0; s_db := snd x1 |} (bar_slices p)).
  { rewrite bar_slices_chain. fold (pbar_nds p). rewrite Hnds. apply chain_slices_mid. }
  assert (H12 : In {| s_b := pb_bar p; s_na := fst x1; s_nb := fst x2; s_da := snd x1; s_db := snd x2 |} (bar_slices p)).
  { rewrite bar_slices_chain. fold (pbar_nds p). rewrite Hnds.
    replace (P ++ x0 :: x1 :: x2 :: S) with ((P ++ [x0]) ++ x1 :: x2 :: S) by (rewrite <- app_assoc; reflexivity).
    apply chain_slices_mid. }
  destruct (Hsl _ H01) as (L01 & K01). destruct (Hsl _ H12) as (L12 & K12). cbn [s_na s_nb] in L01, L12.
  exact (interior_node_equilibrium n sup u B1 B2 p P S x0 x1 x2 Hnds Hn Hs Hgood Hcs L01 L12 K01 K12 Hnd Hi).
Qed.

(* ... hence the chain hypothesis of the statics theorems (C02_chain_statics, C03_bar_equilibrium,
   C01_field_across_node) holds for every bar whose nodal loads are the lumped loads *)
Corollary system_gives_chain_ok n sup u bars :
  Forall (nums_below n) (all_slices bars) -> interior_private n sup bars -> solves n bars sup u ->
  forall B1 p B2 na da rest, bars = B1 ++ p :: B2 -> slices_sound p ->
  pbar_nds p = (na, da) :: map strip_load rest -> chain_static (pb_bar p) na rest ->
  chain_ok (pb_bar p) u na da rest.
Proof.
  intros Hn Hpriv Hs B1 p B2 na da rest Hb Hsound Hnds Hst.
  apply chain_ok_from_interior; [exact Hst|]. rewrite <- Hnds.
  exact (system_gives_interior_equilibrium n sup u bars Hn Hpriv Hs B1 p B2 Hb Hsound).
Qed.

(* ---------- decidable forms of the hypotheses (evaluated on the implementation's own sliced
   structures by the correspondence, so that the theorems are known to apply to them) ---------- *)

Definition interior_nds (p : pbar Q) : list (pnode Q * dof3) := removelast (tl (pbar_nds p)).
Definition interior_nums (p : pbar Q) : list nat := nds_numbers (interior_nds p).

Definition interior_private_b (n : nat) (sup : list nat) (bars : list (pbar Q)) : bool :=
  forallb (fun i => Nat.eqb (count_occ Nat.eq_dec (bars_numbers bars) i) 1 && Nat.ltb i n
                    && negb (is_supported sup i) && negb (row_empty (all_contribs bars) i))
          (flat_map interior_nums bars).

Lemma interior_nds_mid p P x0 x1 x2 S : pbar_nds p = P ++ x0 :: x1 :: x2 :: S -> In x1 (interior_nds p).
Proof.
  intros E. unfold interior_nds. rewrite E.
  assert (G : tl (P ++ x0 :: x1 :: x2 :: S) = tl (P ++ [x0]) ++ x1 :: x2 :: S).
  { destruct P as [|a P]; cbn [app tl]; [reflexivity|]. rewrite <- app_assoc. reflexivity. }
  rewrite G. rewrite removelast_app by discriminate. apply in_or_app. right.
  cbn [removelast]. left. reflexivity.
Qed.

Lemma count_occ_zero_notin (l : list nat) i : count_occ Nat.eq_dec l i = 0%nat -> ~ In i l.
Proof. intros H. apply (count_occ_not_In Nat.eq_dec). exact H. Qed.

Lemma bars_numbers_app a b : bars_numbers (a ++ b) = bars_numbers a ++ bars_numbers b.
Proof. unfold bars_numbers. apply flat_map_app. Qed.

Lemma interior_private_b_sound n sup bars : interior_private_b n sup bars = true -> interior_private n sup bars.
Proof.
  intros H B1 p B2 P x0 x1 x2 S Hb Hnds.
  unfold interior_private_b in H. rewrite forallb_forall in H.
  assert (Hin : forall i, In i (d3_list (snd x1)) -> In i (flat_map interior_nums bars)).
  { intros i Hi. apply in_flat_map. exists p. split; [rewrite Hb; apply in_or_app; right; left; reflexivity|].
    unfold interior_nums, nds_numbers. apply in_flat_map. exists x1. split; [exact (interior_nds_mid p P x0 x1 x2 S Hnds) | exact Hi]. }
  (* the list of all numbers, split around node x1 *)
  assert (Hsplit : bars_numbers bars =
            (bars_numbers B1 ++ nds_numbers (P ++ [x0])) ++ d3_list (snd x1) ++ (nds_numbers (x2 :: S) ++ bars_numbers B2)).
  { rewrite Hb, bars_numbers_app. unfold bars_numbers at 2. cbn [flat_map]. fold (bars_numbers B2).
    rewrite Hnds.
    replace (P ++ x0 :: x1 :: x2 :: S) with ((P ++ [x0]) ++ [x1] ++ x2 :: S) by (rewrite <- app_assoc; reflexivity).
    rewrite !nds_numbers_app. unfold nds_numbers at 3. cbn [flat_map]. rewrite app_nil_r.
    rewrite <- !app_assoc. reflexivity. }
  assert (Hcount : forall i, In i (d3_list (snd x1)) ->
            count_occ Nat.eq_dec (d3_list (snd x1)) i = 1%nat /\
            count_occ Nat.eq_dec (bars_numbers B1 ++ nds_numbers (P ++ [x0])) i = 0%nat /\
            count_occ Nat.eq_dec (nds_numbers (x2 :: S) ++ bars_numbers B2) i = 0%nat).
  { intros i Hi. specialize (H i (Hin i Hi)).
    apply andb_prop in H as (H & _). apply andb_prop in H as (H & _). apply andb_prop in H as (H & _).
    apply Nat.eqb_eq in H. rewrite Hsplit, !count_occ_app in H.
    assert (G : (1 <= count_occ Nat.eq_dec (d3_list (snd x1)) i)%nat).
    { apply (count_occ_In Nat.eq_dec) in Hi. lia. }
    rewrite !count_occ_app. lia. }
  split.
  - apply (NoDup_count_occ' Nat.eq_dec). intros i Hi. apply (Hcount i Hi).
  - intros i Hi. pose proof (H i (Hin i Hi)) as Hb4.
    apply andb_prop in Hb4 as (Hb3 & Hrow). apply andb_prop in Hb3 as (Hb2 & Hsup). apply andb_prop in Hb2 as (_ & Hlt).
    apply Nat.ltb_lt in Hlt. apply negb_true_iff in Hsup. apply negb_true_iff in Hrow.
    destruct (Hcount i Hi) as (_ & C1 & C2). rewrite count_occ_app in C1, C2.
    assert (Z1 : count_occ Nat.eq_dec (bars_numbers B1) i = 0%nat) by lia.
    assert (Z2 : count_occ Nat.eq_dec (nds_numbers (P ++ [x0])) i = 0%nat) by lia.
    assert (Z3 : count_occ Nat.eq_dec (nds_numbers (x2 :: S)) i = 0%nat) by lia.
    assert (Z4 : count_occ Nat.eq_dec (bars_numbers B2) i = 0%nat) by lia.
    apply count_occ_zero_notin in Z1, Z2, Z3, Z4.
    repeat split; try assumption.
    + intro G. apply Z2. rewrite nds_numbers_app. apply in_or_app. right. unfold nds_numbers. cbn [flat_map]. rewrite app_nil_r. exact G.
    + intro G. apply Z3. unfold nds_numbers. cbn [flat_map]. apply in_or_app. left. exact G.
Qed.

Definition nums_below_b (n : nat) (bars : list (pbar Q)) : bool :=
  forallb (fun sl => forallb (fun d => Nat.ltb d n) (s_nums sl)) (all_slices bars).
Lemma nums_below_b_sound n bars : nums_below_b n bars = true -> Forall (nums_below n) (all_slices bars).
Proof.
  unfold nums_below_b. rewrite forallb_forall. intros H. apply Forall_forall. intros sl Hsl.
  specialize (H sl Hsl). rewrite forallb_forall in H. apply Forall_forall. intros d Hd. apply Nat.ltb_lt. exact (H d Hd).
Qed.

Definition no_tiny_b (k : list (list Q)) : bool :=
  forallb (fun p => forallb (fun q => Qeq_bool (entry k p q) 0 || Qle_bool (1 # 10000000000) (Qabs (entry k p q))) (seq 0 6)) (seq 0 6).
Lemma no_tiny_b_sound k : no_tiny_b k = true -> no_tiny k.
Proof.
  unfold no_tiny_b. rewrite forallb_forall. intros H p q Hp Hq.
  specialize (H p ltac:(apply in_seq; lia)). rewrite forallb_forall in H. specialize (H q ltac:(apply in_seq; lia)).
  apply orb_prop in H as [H|H]; [left; apply Qeq_bool_iff; exact H | right; apply Qle_bool_iff; exact H].
Qed.

Definition slices_sound_b (p : pbar Q) : bool :=
  let b := pb_bar p in
  negb (Qeq_bool (b_E b) 0) && negb (Qeq_bool (b_A b) 0) && negb (Qeq_bool (b_I b) 0) && negb (Qeq_bool (b_S b) 0)
  && Qeq_bool (b_c b * b_c b + b_s b * b_s b) 1
  && forallb (fun sl => negb (Qeq_bool (slice_len b (s_na sl) (s_nb sl)) 0) && no_tiny_b (s_k sl)) (bar_slices p).
Lemma Qeq_bool_false_neq (a b : Q) : negb (Qeq_bool a b) = true -> ~ a == b.
Proof. intros H E. apply Qeq_bool_iff in E. rewrite E in H. discriminate. Qed.
Lemma slices_sound_b_sound p : slices_sound_b p = true -> slices_sound p.
Proof.
  unfold slices_sound_b. cbv zeta. intros H.
  apply andb_prop in H as (H & Hsl). apply andb_prop in H as (H & Hcs). apply andb_prop in H as (H & HS).
  apply andb_prop in H as (H & HI). apply andb_prop in H as (HE & HA).
  split; [repeat split; apply Qeq_bool_false_neq; assumption|].
  split; [apply Qeq_bool_iff; exact Hcs|].
  rewrite forallb_forall in Hsl. intros sl Hin. specialize (Hsl sl Hin). apply andb_prop in Hsl as (L & K).
  split; [apply Qeq_bool_false_neq; exact L | apply no_tiny_b_sound; exact K].
Qed.

(* the same theorem with hypotheses that can be computed *)
Theorem system_gives_interior_equilibrium_b n sup u bars :
  nums_below_b n bars = true -> interior_private_b n sup bars = true -> forallb slices_sound_b bars = true ->
  solves n bars sup u ->
  forall B1 p B2, bars = B1 ++ p :: B2 -> interior_ok (pb_bar p) u (pbar_nds p).
Proof.
  intros Hn Hp Hsd Hs B1 p B2 Hb.
  apply (system_gives_interior_equilibrium n sup u bars (nums_below_b_sound n bars Hn) (interior_private_b_sound n sup bars Hp) Hs B1 p B2 Hb).
  apply slices_sound_b_sound. rewrite forallb_forall in Hsd. apply Hsd. rewrite Hb. apply in_or_app. right. left. reflexivity.
Qed.

(* ---------- global equilibrium: virtual work of a rigid movement ---------- *)

(* weighted sum of a list of (number, value) terms *)
Definition wsum (w : nat -> Q) (l : list (nat * Q)) : Q := qsum (map (fun t => w (fst t) * snd t) l).

Lemma qsum_app (a b : list Q) : qsum (a ++ b) == qsum a + qsum b.
Proof. unfold qsum. induction a as [|x a IH]; simpl; [ring | rewrite IH; ring]. Qed.

Lemma wsum_app w a b : wsum w (a ++ b) == wsum w a + wsum w b.
Proof. unfold wsum. rewrite map_app. apply qsum_app. Qed.

Lemma fsum_weighted_fraw n (w : nat -> Q) (l : list (nat * Q)) :
  Forall (fun t => (fst t < n)%nat) l ->
  fsum n (fun i => w i * fraw_at l i) == wsum w l.
Proof.
  induction l as [|t l IH]; intros H.
  - unfold wsum. cbn [map qsum fold_right]. rewrite <- (fsum_zero n). apply fsum_ext. intros i _. rewrite fraw_at_nil. ring.
  - inversion H as [|? ? Ht Hl]; subst.
    change (t :: l) with ([t] ++ l). rewrite wsum_app, <- (IH Hl).
    unfold wsum at 1. cbn [map qsum fold_right].
    transitivity (fsum n (fun i => (if Nat.eqb (fst t) i then w i * snd t else 0) + w i * fraw_at l i)).
    + apply fsum_ext. intros i _. cbn [app]. rewrite fraw_at_cons. destruct (Nat.eqb (fst t) i); ring.
    + rewrite fsum_add. rewrite (fsum_pick n (fst t) (fun i => w i * snd t) Ht). ring.
Qed.

(* w, restricted to the six numbers of a finite element, is a movement that costs the element
   no force: every column of the element stiffness is orthogonal to it *)
Definition free_mode (w : nat -> Q) (sl : slice) : Prop :=
  forall q, (q < 6)%nat ->
    qsum (map (fun p => w (nth p (s_nums sl) 0%nat) * entry (s_k sl) p q) (seq 0 6)) == 0.

Lemma free_mode_no_work w u sl : no_tiny (s_k sl) -> free_mode w sl -> wsum w (s_fterms u sl) == 0.
Proof.
  intros Hk Hm. unfold wsum, s_fterms. rewrite map_map. cbn [fst snd].
  transitivity (qsum (map (fun p => qsum (map (fun q => w (nth p (s_nums sl) 0%nat) * entry (s_k sl) p q * uget u (nth q (s_nums sl) 0%nat)) (seq 0 6))) (seq 0 6))).
  { apply qsum_ext_in. intros p Hp. apply in_seq in Hp.
    rewrite (s_force_unfiltered u sl p Hk) by lia.
    rewrite Qmult_comm, qsum_scale_r. apply qsum_ext. intros q. ring. }
  rewrite qsum_swap.
  transitivity (qsum (map (fun _ : nat => 0) (seq 0 6))); [| apply qsum_map_zero].
  apply qsum_ext_in. intros q Hq. apply in_seq in Hq.
  transitivity (qsum (map (fun p => w (nth p (s_nums sl) 0%nat) * entry (s_k sl) p q) (seq 0 6)) * uget u (nth q (s_nums sl) 0%nat)).
  { rewrite qsum_scale_r. reflexivity. }
  rewrite (Hm q) by lia. ring.
Qed.

Lemma k_terms_below n u bars : Forall (nums_below n) (all_slices bars) ->
  Forall (fun t => (fst t < n)%nat) (k_terms u bars).
Proof.
  intros H. unfold k_terms. apply Forall_forall. intros t Ht.
  apply in_flat_map in Ht as (sl & Hsl & Ht). rewrite Forall_forall in H. specialize (H sl Hsl).
  unfold nums_below in H. rewrite Forall_forall in H. apply H.
  rewrite <- s_fterms_numbers with (u := u). apply in_map. exact Ht.
Qed.

(* the elements of the whole structure do no work on a movement that is free for each of them *)
Lemma free_mode_no_work_all w u bars :
  Forall (fun sl => no_tiny (s_k sl) /\ free_mode w sl) (all_slices bars) -> wsum w (k_terms u bars) == 0.
Proof.
  unfold k_terms. induction (all_slices bars) as [|sl sls IH]; intros H; [reflexivity|].
  inversion H as [|? ? (Hk & Hm) Hr]; subst. cbn [flat_map]. rewrite wsum_app, IH by assumption.
  rewrite (free_mode_no_work w u sl Hk Hm). ring.
Qed.

(* the force the supports provide at a number: element forces minus assembled loads *)
Definition support_force (u : list Q) (bars : list (pbar Q)) (i : nat) : Q :=
  fraw_at (k_terms u bars) i - fraw_at (all_fterms bars) i.

(* THEOREM (global equilibrium, virtual-work form): for any movement w that is free for every
   finite element (the rigid translations and rotations are), the forces at the supported numbers
   and all the assembled nodal loads do no work together: sum_sup w_i R_i + sum_nodes w . f = 0 *)
Theorem support_forces_balance_loads n sup u bars (w : nat -> Q) :
  Forall (nums_below n) (all_slices bars) ->
  Forall (fun t => (fst t < n)%nat) (all_fterms bars) ->
  solves n bars sup u ->
  (forall i, (i < n)%nat -> row_empty (all_contribs bars) i = true -> fraw_at (all_fterms bars) i == 0) ->
  Forall (fun sl => no_tiny (s_k sl) /\ free_mode w sl) (all_slices bars) ->
  fsum n (fun i => if is_supported sup i then w i * support_force u bars i else 0) + wsum w (all_fterms bars) == 0.
Proof.
  intros Hn Hf Hs Horph Hmode.
  assert (E : fsum n (fun i => if is_supported sup i then w i * support_force u bars i else 0)
              == fsum n (fun i => w i * support_force u bars i)).
  { apply fsum_ext. intros i Hi. destruct (is_supported sup i) eqn:Es; [reflexivity|].
    unfold support_force.
    destruct (row_empty (all_contribs bars) i) eqn:Er.
    - rewrite (Horph i Hi Er).
      rewrite <- (raw_row_is_element_forces n u bars i Hn).
      setoid_replace (fsum n (fun j => kraw_at (all_contribs bars) i j * uget u j)) with 0; [ring|].
      rewrite <- (fsum_zero n). apply fsum_ext. intros j _. rewrite (row_empty_kraw _ i j Er). ring.
    - rewrite (row_is_equilibrium n bars sup u i Hn Hs Hi Es Er). ring. }
  rewrite E. unfold support_force.
  transitivity (fsum n (fun i => w i * fraw_at (k_terms u bars) i) - fsum n (fun i => w i * fraw_at (all_fterms bars) i) + wsum w (all_fterms bars)).
  { apply Qplus_inj_r.
    setoid_replace (fsum n (fun i => w i * fraw_at (k_terms u bars) i) - fsum n (fun i => w i * fraw_at (all_fterms bars) i))
      with (fsum n (fun i => w i * fraw_at (k_terms u bars) i) + fsum n (fun i => (-1) * (w i * fraw_at (all_fterms bars) i))).
    - rewrite <- fsum_add. apply fsum_ext. intros i _. ring.
    - rewrite fsum_scale. ring. }
  rewrite (fsum_weighted_fraw n w (k_terms u bars) (k_terms_below n u bars Hn)).
  rewrite (fsum_weighted_fraw n w (all_fterms bars) Hf).
  rewrite (free_mode_no_work_all w u bars Hmode). ring.
Qed.

(* ---------- the three rigid movements of the plane are free for every element ---------- *)

(* what a number stands for: its component (0 = x, 1 = y, 2 = rotation) and the position of the
   slice node(s) that carry it *)
Record label := { lb_comp : nat; lb_x : Q; lb_y : Q }.

Definition labelled_node (lab : nat -> label) (nd : pnode Q) (d : dof3) : Prop :=
  lb_comp (lab (fst (fst d))) = 0%nat /\ lb_comp (lab (snd (fst d))) = 1%nat /\ lb_comp (lab (snd d)) = 2%nat /\
  lb_x (lab (fst (fst d))) == pn_x nd /\ lb_y (lab (fst (fst d))) == pn_y nd /\
  lb_x (lab (snd (fst d))) == pn_x nd /\ lb_y (lab (snd (fst d))) == pn_y nd.

(* both nodes of the element are labelled and the lead node sits where the bar's direction puts it *)
Definition labelled (lab : nat -> label) (sl : slice) : Prop :=
  labelled_node lab (s_na sl) (s_da sl) /\ labelled_node lab (s_nb sl) (s_db sl) /\
  pn_x (s_nb sl) == pn_x (s_na sl) + b_c (s_b sl) * slice_len (s_b sl) (s_na sl) (s_nb sl) /\
  pn_y (s_nb sl) == pn_y (s_na sl) + b_s (s_b sl) * slice_len (s_b sl) (s_na sl) (s_nb sl).

Definition w_tx (lab : nat -> label) (i : nat) : Q := if Nat.eqb (lb_comp (lab i)) 0 then 1 else 0.
Definition w_ty (lab : nat -> label) (i : nat) : Q := if Nat.eqb (lb_comp (lab i)) 1 then 1 else 0.
(* unit small rotation about (px, py) *)
Definition w_rot (lab : nat -> label) (px py : Q) (i : nat) : Q :=
  match lb_comp (lab i) with
  | 0%nat => - (lb_y (lab i) - py)
  | 1%nat => lb_x (lab i) - px
  | _ => 1
  end.

Lemma slice_len_parts (b : bar Q) na nb : ~ slice_len b na nb == 0 -> ~ b_L b == 0 /\ ~ pn_t nb - pn_t na == 0.
Proof. intros H. split; intro E; apply H; unfold slice_len; rewrite E; ring. Qed.

Lemma six_cases q : (q < 6)%nat -> q = 0%nat \/ q = 1%nat \/ q = 2%nat \/ q = 3%nat \/ q = 4%nat \/ q = 5%nat.
Proof. lia. Qed.

Lemma free_tx lab sl : labelled lab sl -> ~ slice_len (s_b sl) (s_na sl) (s_nb sl) == 0 -> free_mode (w_tx lab) sl.
Proof.
  intros ((A1 & A2 & A3 & _) & (B1 & B2 & B3 & _) & _) Hl q Hq.
  destruct (slice_len_parts _ _ _ Hl) as (HL & Ht).
  unfold s_nums, slice_numbers, d3_list, s_k, w_tx. destruct (s_da sl) as [[a1 a2] a3], (s_db sl) as [[b1 b2] b3].
  cbn [fst snd] in *. cbn [app seq map nth qsum fold_right].
  rewrite A1, A2, A3, B1, B2, B3. cbn [Nat.eqb].
  unfold stiff_gen, entry.
  destruct (six_cases q Hq) as [-> | [-> | [-> | [-> | [-> | ->]]]]]; cbn [nth nadd nmul nsub ndiv nopp nofZ n0 n1 QOps]; field; auto.
Qed.

Lemma free_ty lab sl : labelled lab sl -> ~ slice_len (s_b sl) (s_na sl) (s_nb sl) == 0 -> free_mode (w_ty lab) sl.
Proof.
  intros ((A1 & A2 & A3 & _) & (B1 & B2 & B3 & _) & _) Hl q Hq.
  destruct (slice_len_parts _ _ _ Hl) as (HL & Ht).
  unfold s_nums, slice_numbers, d3_list, s_k, w_ty. destruct (s_da sl) as [[a1 a2] a3], (s_db sl) as [[b1 b2] b3].
  cbn [fst snd] in *. cbn [app seq map nth qsum fold_right].
  rewrite A1, A2, A3, B1, B2, B3. cbn [Nat.eqb].
  unfold stiff_gen, entry.
  destruct (six_cases q Hq) as [-> | [-> | [-> | [-> | [-> | ->]]]]]; cbn [nth nadd nmul nsub ndiv nopp nofZ n0 n1 QOps]; field; auto.
Qed.

Lemma free_rot lab px py sl : labelled lab sl -> ~ slice_len (s_b sl) (s_na sl) (s_nb sl) == 0 ->
  b_c (s_b sl) * b_c (s_b sl) + b_s (s_b sl) * b_s (s_b sl) == 1 -> free_mode (w_rot lab px py) sl.
Proof.
  intros ((A1 & A2 & A3 & AX1 & AY1 & AX2 & AY2) & (B1 & B2 & B3 & BX1 & BY1 & BX2 & BY2) & GX & GY) Hl Hcs q Hq.
  destruct (slice_len_parts _ _ _ Hl) as (HL & Ht).
  assert (Hs2 : b_s (s_b sl) * b_s (s_b sl) == 1 - b_c (s_b sl) * b_c (s_b sl)) by (rewrite <- Hcs; ring).
  unfold s_nums, slice_numbers, d3_list, s_k, w_rot. destruct (s_da sl) as [[a1 a2] a3], (s_db sl) as [[b1 b2] b3].
  cbn [fst snd] in *. cbn [app seq map nth qsum fold_right].
  rewrite A1, A2, A3, B1, B2, B3.
  rewrite AY1, AX2, BY1, BX2, GX, GY. unfold slice_len.
  set (x := pn_x (s_na sl)). set (y := pn_y (s_na sl)). clearbody x y.
  unfold stiff_gen, entry.
  destruct (six_cases q Hq) as [-> | [-> | [-> | [-> | [-> | ->]]]]]; cbn [nth nadd nmul nsub ndiv nopp nofZ n0 n1 QOps]; field [Hs2]; auto.
Qed.

(* THEOREM (global equilibrium of the assembled system): with every element labelled, the forces at
   the supported numbers and all assembled nodal loads are in balance - sum of x components, sum of y
   components, and sum of moments about any point (px, py) *)
Theorem support_forces_in_global_equilibrium n sup u bars (lab : nat -> label) :
  Forall (nums_below n) (all_slices bars) ->
  Forall (fun t => (fst t < n)%nat) (all_fterms bars) ->
  solves n bars sup u ->
  (forall i, (i < n)%nat -> row_empty (all_contribs bars) i = true -> fraw_at (all_fterms bars) i == 0) ->
  Forall (fun sl => no_tiny (s_k sl) /\ labelled lab sl /\ ~ slice_len (s_b sl) (s_na sl) (s_nb sl) == 0 /\
                    b_c (s_b sl) * b_c (s_b sl) + b_s (s_b sl) * b_s (s_b sl) == 1) (all_slices bars) ->
  forall w, (w = w_tx lab \/ w = w_ty lab \/ exists px py, w = w_rot lab px py) ->
  fsum n (fun i => if is_supported sup i then w i * support_force u bars i else 0) + wsum w (all_fterms bars) == 0.
Proof.
  intros Hn Hf Hs Horph Hsl w Hw.
  apply (support_forces_balance_loads n sup u bars w Hn Hf Hs Horph).
  apply Forall_forall. intros sl Hin. rewrite Forall_forall in Hsl. destruct (Hsl sl Hin) as (Hk & Hlab & Hl & Hcs).
  split; [exact Hk|].
  destruct Hw as [-> | [-> | (px & py & ->)]]; [apply free_tx | apply free_ty | apply free_rot]; assumption.
Qed.

(* the same check with the shared parts computed once (for evaluation on large structures) *)
Definition interior_private_fast (n : nat) (sup : list nat) (bars : list (pbar Q)) : bool :=
  let nums := bars_numbers bars in
  let cs := all_contribs bars in
  forallb (fun i => Nat.eqb (count_occ Nat.eq_dec nums i) 1 && Nat.ltb i n
                    && negb (is_supported sup i) && negb (row_empty cs i))
          (flat_map interior_nums bars).
Lemma interior_private_fast_eq n sup bars : interior_private_fast n sup bars = interior_private_b n sup bars.
Proof. reflexivity. Qed.
