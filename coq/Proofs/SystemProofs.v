(* From the assembled system to equilibrium.  Model/Assemble.v builds the matrix and the load
   vector the solver receives; this file proves, for every list of sliced bars and every
   displacement vector, that row i of "K u = f" is the balance, at equation number i, between
   the forces the finite elements exert there (slice stiffness x the slice's own six
   displacements) and the nodal loads assembled there.  For an interior slice node, whose three
   numbers belong to it alone, the three rows are exactly the node equilibrium
   (RecoverProofs.node_equilibrium) that the chain theorems of C01, C02 and C03 assume. *)
From Coq Require Import ZArith QArith Qabs List Bool Arith Lia Field Lqa Permutation.
From Inkfem Require Import Num.NumOps Gen.GenStiffness Gen.GenLoads Gen.GenRecover Spec.Stiffness
  Spec.Superposition Model.Types Model.Slice Model.Dof Model.Assemble Model.Recover
  Proofs.AssembleProofs Proofs.RecoverProofs Proofs.FieldProofs.
Import ListNotations.
Local Open Scope Q_scope.

(* ---------- finite sums over 0 .. n-1 against sums over lists ---------- *)

Lemma fsum_qsum_swap (A : Type) n (l : list A) (f : nat -> A -> Q) :
  fsum n (fun i => qsum (map (f i) l)) == qsum (map (fun a => fsum n (fun i => f i a)) l).
Proof.
  induction l as [|a l IH]; cbn [map qsum fold_right].
  - apply fsum_zero.
  - change (fold_right Qplus 0 (map (fun a0 => fsum n (fun i => f i a0)) l)) with
      (qsum (map (fun a0 => fsum n (fun i => f i a0)) l)).
    rewrite <- IH, <- fsum_add. apply fsum_ext. intros i _. reflexivity.
Qed.

Lemma qsum_scale_r (A : Type) (f : A -> Q) (c : Q) (l : list A) :
  qsum (map f l) * c == qsum (map (fun x => f x * c) l).
Proof.
  induction l as [|a l IH]; cbn [map qsum fold_right]; [ring|].
  change (fold_right Qplus 0 ?x) with (qsum x) in *. rewrite <- IH. ring.
Qed.

Lemma fsum_pick n a (g : nat -> Q) : (a < n)%nat ->
  fsum n (fun j => if Nat.eqb a j then g j else 0) == g a.
Proof.
  intros Ha. rewrite <- (fsum_delta n a g Ha). apply fsum_ext. intros j _.
  destruct (Nat.eqb a j); ring.
Qed.

(* ---------- the finite elements of a structure ---------- *)

Record slice := { s_b : bar Q; s_na : pnode Q; s_nb : pnode Q; s_da : dof3; s_db : dof3 }.

Fixpoint slices_from (b : bar Q) (na : pnode Q) (da : dof3) (rest : list (pnode Q * dof3)) : list slice :=
  match rest with
  | [] => []
  | (nb, db) :: rest' => {| s_b := b; s_na := na; s_nb := nb; s_da := da; s_db := db |} :: slices_from b nb db rest'
  end.
Definition bar_slices (p : pbar Q) : list slice :=
  match combine (pb_nodes p) (pb_dofs p) with
  | [] => []
  | (na, da) :: rest => slices_from (pb_bar p) na da rest
  end.
Definition all_slices (bars : list (pbar Q)) : list slice := flat_map bar_slices bars.

Definition s_nums (sl : slice) : list nat := slice_numbers (s_da sl) (s_db sl).
Definition s_k (sl : slice) : list (list Q) :=
  stiff_gen (b_L (s_b sl)) (b_c (s_b sl)) (b_s (s_b sl)) (pn_t (s_na sl)) (pn_t (s_nb sl))
            (b_E (s_b sl)) (b_A (s_b sl)) (b_I (s_b sl)).
Definition s_contribs (sl : slice) : list (nat * nat * Q) :=
  slice_contribs (s_b sl) (s_na sl) (s_nb sl) (s_da sl) (s_db sl).

Lemma bar_contribs_from_slices b : forall rest na da,
  bar_contribs_from b na da rest = flat_map s_contribs (slices_from b na da rest).
Proof.
  induction rest as [|[nb db] rest IH]; intros na da; cbn [bar_contribs_from slices_from flat_map]; [reflexivity|].
  rewrite IH. reflexivity.
Qed.

Lemma flat_map_flat_map (A B C : Type) (f : B -> list C) (g : A -> list B) (l : list A) :
  flat_map f (flat_map g l) = flat_map (fun a => flat_map f (g a)) l.
Proof. induction l as [|a l IH]; cbn; [reflexivity|]. rewrite flat_map_app, IH. reflexivity. Qed.

Lemma all_contribs_slices (bars : list (pbar Q)) :
  all_contribs bars = flat_map s_contribs (all_slices bars).
Proof.
  unfold all_contribs, all_slices. rewrite flat_map_flat_map. apply flat_map_ext. intros p.
  unfold bar_contribs, bar_slices. destruct (combine (pb_nodes p) (pb_dofs p)) as [|[na da] rest]; [reflexivity|].
  apply bar_contribs_from_slices.
Qed.

(* ---------- the force an element exerts at each of its six numbers ---------- *)

(* entry p of (slice stiffness as assembled) x (the slice's own displacements) *)
Definition s_force (u : list Q) (sl : slice) (p : nat) : Q :=
  qsum (map (fun q => filtered (entry (s_k sl) p q) * uget u (nth q (s_nums sl) 0%nat)) (seq 0 6)).
Definition s_fterms (u : list Q) (sl : slice) : list (nat * Q) :=
  map (fun p => (nth p (s_nums sl) 0%nat, s_force u sl p)) (seq 0 6).

Definition nums_below (n : nat) (sl : slice) : Prop := Forall (fun d => (d < n)%nat) (s_nums sl).

Lemma fraw_at_map_seq (g : nat -> nat * Q) (l : list nat) i :
  fraw_at (map g l) i == qsum (map (fun p => if Nat.eqb (fst (g p)) i then snd (g p) else 0) l).
Proof.
  induction l as [|a l IH]; cbn [map qsum fold_right]; [apply fraw_at_nil|].
  rewrite fraw_at_cons, IH. reflexivity.
Qed.

Lemma nth_below n (ds : list nat) q : Forall (fun d => (d < n)%nat) ds -> (q < length ds)%nat -> (nth q ds 0 < n)%nat.
Proof. intros H Hq. rewrite Forall_forall in H. apply H. apply nth_In. exact Hq. Qed.

Lemma s_nums_length sl : length (s_nums sl) = 6%nat.
Proof. reflexivity. Qed.

(* one finite element: its rows of K times u are its forces, placed at its numbers *)
Lemma slice_row_times n (u : list Q) (sl : slice) i : nums_below n sl ->
  fsum n (fun j => placed (s_k sl) (s_nums sl) i j * uget u j) == fraw_at (s_fterms u sl) i.
Proof.
  intros Hn. unfold s_fterms. rewrite fraw_at_map_seq. cbn [fst snd].
  unfold placed.
  transitivity (fsum n (fun j => qsum (map (fun p => qsum (map (fun q =>
      (if Nat.eqb (nth p (s_nums sl) 0%nat) i && Nat.eqb (nth q (s_nums sl) 0%nat) j
       then filtered (entry (s_k sl) p q) else 0) * uget u j) (seq 0 6))) (seq 0 6)))).
  { apply fsum_ext. intros j _. rewrite qsum_scale_r. apply qsum_ext. intros p.
    rewrite qsum_scale_r. reflexivity. }
  rewrite fsum_qsum_swap. apply qsum_ext_in. intros p Hp.
  rewrite fsum_qsum_swap.
  destruct (Nat.eqb (nth p (s_nums sl) 0%nat) i) eqn:Ep; cbn [andb].
  - unfold s_force. apply qsum_ext_in. intros q Hq.
    apply in_seq in Hq.
    rewrite <- (fsum_pick n (nth q (s_nums sl) 0%nat) (fun j => filtered (entry (s_k sl) p q) * uget u j)).
    + apply fsum_ext. intros j _. destruct (Nat.eqb (nth q (s_nums sl) 0%nat) j); ring.
    + apply nth_below; [exact Hn | rewrite s_nums_length; lia].
  - transitivity (qsum (map (fun _ : nat => 0) (seq 0 6))); [| apply qsum_map_zero].
    apply qsum_ext. intros q. rewrite <- (fsum_zero n). apply fsum_ext. intros j _. ring.
Qed.

(* the whole structure: row i of (accumulated matrix) x u is the sum of the element forces
   placed at number i *)
Definition k_terms (u : list Q) (bars : list (pbar Q)) : list (nat * Q) :=
  flat_map (s_fterms u) (all_slices bars).

Theorem raw_row_is_element_forces n (u : list Q) (bars : list (pbar Q)) i :
  Forall (nums_below n) (all_slices bars) ->
  fsum n (fun j => kraw_at (all_contribs bars) i j * uget u j) == fraw_at (k_terms u bars) i.
Proof.
  intros Hn. rewrite all_contribs_slices. unfold k_terms.
  induction (all_slices bars) as [|sl sls IH]; cbn [flat_map].
  - rewrite fraw_at_nil. rewrite <- (fsum_zero n). apply fsum_ext. intros j _. rewrite kraw_at_nil. ring.
  - inversion Hn as [|? ? H1 H2]; subst.
    rewrite fraw_at_app, <- IH by assumption. rewrite <- (slice_row_times n u sl i H1), <- fsum_add.
    apply fsum_ext. intros j _. rewrite kraw_at_app. unfold s_contribs at 1.
    rewrite slice_contribs_placed. fold (s_k sl). fold (s_nums sl). ring.
Qed.

(* ---------- from the system handed to the solver to its rows before the supports ---------- *)

Lemma fold_left_plus_fsum (g : nat -> Q) : forall l a,
  fold_left (fun acc j => acc + g j) l a == a + fold_right (fun j acc => g j + acc) 0 l.
Proof.
  induction l as [|x l IH]; intros a; cbn [fold_left fold_right]; [ring|]. rewrite IH. ring.
Qed.

Lemma row_times_fsum (cs : list (nat * nat * Q)) sup n (u : nat -> Q) i :
  row_times cs sup n u i == fsum n (fun j => k_final cs sup i j * u j).
Proof.
  unfold row_times, fsum. cbn [nadd nmul n0 QOps].
  rewrite (fold_left_plus_fsum (fun j => k_final cs sup i j * u j)). ring.
Qed.

(* u solves the system the model hands to the solver (C17: K = k_final, f = f_final) *)
Definition solves (n : nat) (bars : list (pbar Q)) (sup : list nat) (u : list Q) : Prop :=
  forall i, (i < n)%nat ->
    row_times (all_contribs bars) sup n (uget u) i == f_final (all_fterms bars) sup i.

Lemma delta_diag i : delta (F:=Q) i i = 1.
Proof. unfold delta. rewrite Nat.eqb_refl. reflexivity. Qed.

(* supported numbers: the solution is exactly zero there *)
Lemma solves_supported n bars sup u i : solves n bars sup u -> (i < n)%nat ->
  is_supported sup i = true -> uget u i == 0.
Proof.
  intros Hs Hi Hsup. specialize (Hs i Hi). rewrite row_times_fsum in Hs.
  unfold f_final in Hs. rewrite Hsup in Hs. cbn [n0 QOps] in Hs. rewrite <- Hs.
  rewrite <- (fsum_delta n i (uget u) Hi). apply fsum_ext. intros j _.
  unfold k_final. rewrite Hsup. cbn [orb]. unfold delta. cbn [n0 n1 QOps].
  destruct (Nat.eqb i j); ring.
Qed.

Lemma is_supported_neq sup i j : is_supported sup i = false -> is_supported sup j = true -> Nat.eqb i j = false.
Proof.
  intros Hi Hj. destruct (Nat.eqb_spec i j) as [->|]; [congruence | reflexivity].
Qed.

(* every other equation with at least one stiffness term: the element forces at that number
   balance the nodal loads assembled there *)
Theorem row_is_equilibrium n bars sup u i :
  Forall (nums_below n) (all_slices bars) -> solves n bars sup u -> (i < n)%nat ->
  is_supported sup i = false -> row_empty (all_contribs bars) i = false ->
  fraw_at (k_terms u bars) i == fraw_at (all_fterms bars) i.
Proof.
  intros Hn Hs Hi Hsup Hrow. pose proof (Hs i Hi) as Hrowi. rewrite row_times_fsum in Hrowi.
  unfold f_final in Hrowi. rewrite Hsup in Hrowi. rewrite <- Hrowi.
  rewrite <- (raw_row_is_element_forces n u bars i Hn).
  apply fsum_ext. intros j Hj. unfold k_final. rewrite Hsup, Hrow. cbn [orb].
  destruct (is_supported sup j) eqn:Ej.
  - rewrite (solves_supported n bars sup u j Hs Hj Ej). ring.
  - reflexivity.
Qed.

(* an equation without any stiffness term (a number no finite element refers to) *)
Lemma row_empty_trivial n bars sup u i : solves n bars sup u -> (i < n)%nat ->
  is_supported sup i = false -> row_empty (all_contribs bars) i = true ->
  uget u i == fraw_at (all_fterms bars) i.
Proof.
  intros Hs Hi Hsup Hrow. specialize (Hs i Hi). rewrite row_times_fsum in Hs.
  unfold f_final in Hs. rewrite Hsup in Hs. rewrite <- Hs.
  rewrite <- (fsum_delta n i (uget u) Hi). apply fsum_ext. intros j _.
  unfold k_final. rewrite Hsup, Hrow. cbn [orb].
  destruct (is_supported sup j); unfold delta; cbn [n0 n1 QOps]; destruct (Nat.eqb i j); ring.
Qed.

(* ---------- where a number occurs ---------- *)

Lemma fraw_at_notin (l : list (nat * Q)) i : (forall x, In x l -> fst x <> i) -> fraw_at l i == 0.
Proof.
  induction l as [|x l IH]; intros H; [apply fraw_at_nil|].
  rewrite fraw_at_cons. destruct (Nat.eqb_spec (fst x) i) as [E|_].
  - exfalso. exact (H x (or_introl eq_refl) E).
  - rewrite IH; [ring|]. intros y Hy. apply H. right. exact Hy.
Qed.

Fixpoint chain_slices (b : bar Q) (nds : list (pnode Q * dof3)) : list slice :=
  match nds with
  | [] => []
  | x :: rest =>
    match rest with
    | [] => []
    | y :: _ => {| s_b := b; s_na := fst x; s_nb := fst y; s_da := snd x; s_db := snd y |} :: chain_slices b rest
    end
  end.

Lemma slices_from_chain b : forall rest na da, slices_from b na da rest = chain_slices b ((na, da) :: rest).
Proof.
  induction rest as [|[nb db] rest IH]; intros na da; [reflexivity|].
  cbn [slices_from]. rewrite IH. reflexivity.
Qed.
Lemma bar_slices_chain p : bar_slices p = chain_slices (pb_bar p) (combine (pb_nodes p) (pb_dofs p)).
Proof.
  unfold bar_slices. destruct (combine (pb_nodes p) (pb_dofs p)) as [|[na da] rest]; [reflexivity|].
  apply slices_from_chain.
Qed.

Lemma chain_slices_app b : forall P x S,
  chain_slices b (P ++ x :: S) = chain_slices b (P ++ [x]) ++ chain_slices b (x :: S).
Proof.
  induction P as [|a P IH]; intros x S; [reflexivity|].
  destruct P as [|a' P'].
  - cbn [app chain_slices]. reflexivity.
  - change ((a :: a' :: P') ++ x :: S) with (a :: (a' :: P') ++ x :: S).
    change ((a :: a' :: P') ++ [x]) with (a :: (a' :: P') ++ [x]).
    specialize (IH x S).
    change (chain_slices b (a :: (a' :: P') ++ x :: S)) with
      ({| s_b := b; s_na := fst a; s_nb := fst a'; s_da := snd a; s_db := snd a' |} :: chain_slices b ((a' :: P') ++ x :: S)).
    change (chain_slices b (a :: (a' :: P') ++ [x])) with
      ({| s_b := b; s_na := fst a; s_nb := fst a'; s_da := snd a; s_db := snd a' |} :: chain_slices b ((a' :: P') ++ [x])).
    rewrite IH. reflexivity.
Qed.

Definition nds_numbers (nds : list (pnode Q * dof3)) : list nat := flat_map (fun x => d3_list (snd x)) nds.

Lemma chain_slices_numbers b : forall nds sl, In sl (chain_slices b nds) ->
  incl (s_nums sl) (nds_numbers nds).
Proof.
  induction nds as [|x rest IH]; intros sl H; [destruct H|].
  destruct rest as [|y rest']; [destruct H|].
  cbn [chain_slices] in H. destruct H as [<-|H].
  - unfold s_nums, slice_numbers, nds_numbers. cbn [s_da s_db flat_map].
    intros d Hd. apply in_app_or in Hd. apply in_or_app. destruct Hd as [Hd|Hd]; [left; exact Hd|].
    right. apply in_or_app. left. exact Hd.
  - intros d Hd. unfold nds_numbers. cbn [flat_map]. apply in_or_app. right. exact (IH sl H d Hd).
Qed.

Lemma s_fterms_numbers u sl : map fst (s_fterms u sl) = s_nums sl.
Proof.
  unfold s_fterms. rewrite map_map. cbn [fst]. unfold s_nums, slice_numbers, d3_list.
  destruct (s_da sl) as [[a b] c], (s_db sl) as [[d e] f]. reflexivity.
Qed.

Lemma fraw_chain_notin u b nds i : ~ In i (nds_numbers nds) ->
  fraw_at (flat_map (s_fterms u) (chain_slices b nds)) i == 0.
Proof.
  intros Hi. apply fraw_at_notin. intros x Hx E. apply Hi.
  apply in_flat_map in Hx as (sl & Hsl & Hx).
  apply (chain_slices_numbers b nds sl Hsl).
  rewrite <- s_fterms_numbers with (u := u). rewrite <- E. apply in_map. exact Hx.
Qed.
