(* Proofs for C01: the piecewise polynomial field determined by the reported nodal
   displacements is the exact Euler-Bernoulli response of the bar, element by element and
   across slice nodes; conditioning bound relating the solver's residual to the displacement
   error; bars sharing an equation number report the same movement. *)
From Coq Require Import ZArith QArith Qabs List Bool Arith Lia Field Lqa.
From Inkfem Require Import Num.NumOps Gen.GenLoads Gen.GenRecover Spec.Stiffness Spec.Beam
  Model.Types Model.Slice Model.Dof Model.Assemble Model.Recover Proofs.BeamProofs Proofs.RecoverProofs.
Import ListNotations.
Local Open Scope Q_scope.

(* the field of one finite element: axial cubic and transverse quintic through the reported
   local displacements of its two nodes, for the linear loads p (axial) and q (transverse) *)
Definition field_of (b : bar Q) (u : list Q) (na nb : pnode Q) (da db : dof3) (p1 q1 p2 q2 : Q)
  : list Q * list Q :=
  let la := node_local b u da in let lb := node_local b u db in
  let len := slice_len b na nb in
  (axial_field (b_E b * b_A b) len (t_fx la) (t_fx lb) p1 p2,
   trans_field (b_E b * b_I b) len (t_fy la) (t_mz la) (t_fy lb) (t_mz lb) q1 q2).

Lemma EA_nonzero b : good_bar b -> ~ b_E b * b_A b == 0.
Proof. intros (HE & HA & _) H. apply Qmult_integral in H as [H|H]; contradiction. Qed.
Lemma EI_nonzero b : good_bar b -> ~ b_E b * b_I b == 0.
Proof. intros (HE & _ & HI & _) H. apply Qmult_integral in H as [H|H]; contradiction. Qed.

(* (i) differential equations at every x of the element, (ii) the field takes the reported
   displacements and rotations at both nodes *)
Lemma field_exact b u na nb da db p1 q1 p2 q2 x :
  good_bar b -> ~ slice_len b na nb == 0 ->
  let f := field_of b u na nb da db p1 q1 p2 q2 in
  let len := slice_len b na nb in
  let la := node_local b u da in let lb := node_local b u db in
  (b_E b * b_A b) * peval (pderiv (pderiv (fst f))) x == - lin p1 p2 len x /\
  (b_E b * b_I b) * peval (pderiv (pderiv (pderiv (pderiv (snd f))))) x == lin q1 q2 len x /\
  peval (fst f) 0 == t_fx la /\ peval (fst f) len == t_fx lb /\
  peval (snd f) 0 == t_fy la /\ peval (pderiv (snd f)) 0 == t_mz la /\
  peval (snd f) len == t_fy lb /\ peval (pderiv (snd f)) len == t_mz lb.
Proof.
  intros Hb Hl f len la lb. unfold f, field_of. cbn [fst snd]. fold len la lb.
  apply (ode_Q (b_E b * b_A b) (b_E b * b_I b) len (t_fx la) (t_fy la) (t_mz la) (t_fx lb) (t_fy lb) (t_mz lb) p1 p2 q1 q2 x);
    [apply EA_nonzero | apply EI_nonzero | ]; assumption.
Qed.

(* (iii) the section forces of the field at the two ends are what the recovery lists *)
Lemma field_forces_are_recovered b u na nb da db p1 q1 p2 q2 :
  good_bar b -> ~ slice_len b na nb == 0 ->
  lumped na nb (slice_len b na nb) p1 q1 0 p2 q2 0 ->
  let f := field_of b u na nb da db p1 q1 p2 q2 in
  let len := slice_len b na nb in
  let r := slice_recover b u na nb da db in
  nvm_eq (nvm b (fst r)) (N_of (b_E b * b_A b) (fst f) 0, V_of (b_E b * b_I b) (snd f) 0, M_of (b_E b * b_I b) (snd f) 0) /\
  nvm_eq (nvm b (snd r)) (N_of (b_E b * b_A b) (fst f) len, V_of (b_E b * b_I b) (snd f) len, M_of (b_E b * b_I b) (snd f) len).
Proof.
  intros Hb Hl ((h1 & h2 & h3) & (h4 & h5 & h6)) f len r.
  pose proof Hb as (HE & HA & HI & HS).
  unfold r, nvm, nvm_eq, slice_recover, f, field_of. cbn [fst snd]. fold len.
  generalize (t_fx (node_local b u da)) (t_fy (node_local b u da)) (t_mz (node_local b u da))
             (t_fx (node_local b u db)) (t_fy (node_local b u db)) (t_mz (node_local b u db)).
  intros u1 v1 r1 u2 v2 r2.
  revert h1 h2 h3 h4 h5 h6. fold len.
  generalize (t_fx (pn_left na)) (t_fy (pn_left na)) (t_mz (pn_left na))
             (t_fx (pn_right nb)) (t_fy (pn_right nb)) (t_mz (pn_right nb)).
  intros a1 a2 a3 c1 c2 c3 h1 h2 h3 h4 h5 h6.
  change (b_L b * (pn_t nb - pn_t na))%num with len.
  fold len in Hl. clearbody len.
  unfold recover_gen, q_ax, q_sh, q_bm, N_of, V_of, M_of, axial_field, trans_field, peval, pderiv, pderiv_from.
  cbn. rewrite h1, h2, h3, h4, h5, h6.
  unfold lump_gen, t_fx, t_fy, t_mz. cbn.
  repeat split; field; repeat split; auto.
Qed.

(* (iv) across a slice node in equilibrium the fields of the two adjacent elements agree in
   u, v, v' and their section forces differ by exactly the concentrated load of the node *)
Lemma field_across_node b u n0 n1 n2 d0 d1 d2 p1 q1 p2 q2 p1' q1' p2' q2' :
  good_bar b -> ~ slice_len b n0 n1 == 0 -> ~ slice_len b n1 n2 == 0 ->
  lumped n0 n1 (slice_len b n0 n1) p1 q1 0 p2 q2 0 ->
  lumped n1 n2 (slice_len b n1 n2) p1' q1' 0 p2' q2' 0 ->
  node_equilibrium b u n0 n1 n2 d0 d1 d2 ->
  let f := field_of b u n0 n1 d0 d1 p1 q1 p2 q2 in
  let g := field_of b u n1 n2 d1 d2 p1' q1' p2' q2' in
  let l := slice_len b n0 n1 in
  let EA := b_E b * b_A b in let EI := b_E b * b_I b in
  peval (fst g) 0 == peval (fst f) l /\
  peval (snd g) 0 == peval (snd f) l /\
  peval (pderiv (snd g)) 0 == peval (pderiv (snd f)) l /\
  N_of EA (fst g) 0 == N_of EA (fst f) l - t_fx (pn_ext n1) /\
  V_of EI (snd g) 0 == V_of EI (snd f) l + t_fy (pn_ext n1) /\
  M_of EI (snd g) 0 == M_of EI (snd f) l - t_mz (pn_ext n1).
Proof.
  intros Hb H01 H12 L01 L12 Heq f g l EA EI.
  destruct (field_exact b u n0 n1 d0 d1 p1 q1 p2 q2 0 Hb H01) as (_ & _ & _ & F1 & _ & _ & F2 & F3).
  destruct (field_exact b u n1 n2 d1 d2 p1' q1' p2' q2' 0 Hb H12) as (_ & _ & G1 & _ & G2 & G3 & _ & _).
  destruct (field_forces_are_recovered b u n0 n1 d0 d1 p1 q1 p2 q2 Hb H01 L01) as (_ & (A1 & A2 & A3)).
  destruct (field_forces_are_recovered b u n1 n2 d1 d2 p1' q1' p2' q2' Hb H12 L12) as ((B1 & B2 & B3) & _).
  destruct (jump_is_load b u n0 n1 n2 d0 d1 d2 Hb H01 H12 Heq) as (J1 & J2 & J3).
  cbn [fst snd] in A1, A2, A3, B1, B2, B3.
  fold f in F1, F2, F3, A1, A2, A3. fold g in G1, G2, G3, B1, B2, B3. fold l in F1, F2, F3, A1, A2, A3.
  fold EA in A1, B1. fold EI in A2, A3, B2, B3.
  repeat split.
  - rewrite G1, F1. reflexivity.
  - rewrite G2, F2. reflexivity.
  - rewrite G3, F3. reflexivity.
  - rewrite <- B1, <- A1. exact J1.
  - rewrite <- B2, <- A2. exact J2.
  - rewrite <- B3, <- A3. exact J3.
Qed.

(* bars (and slices) that share an equation number report the same movement *)
Lemma same_number_same_movement (u : list Q) (d1 d2 : dof3) :
  (fst (fst d1) = fst (fst d2) -> t_fx (node_global u d1) = t_fx (node_global u d2)) /\
  (snd (fst d1) = snd (fst d2) -> t_fy (node_global u d1) = t_fy (node_global u d2)) /\
  (snd d1 = snd d2 -> t_mz (node_global u d1) = t_mz (node_global u d2)).
Proof.
  unfold node_global, t_fx, t_fy, t_mz. cbn [fst snd]. repeat split; intros ->; reflexivity.
Qed.

(* ---- conditioning: residual of the equations vs error of the displacements ---- *)
Definition fsum (n : nat) (f : nat -> Q) : Q := fold_right (fun i acc => f i + acc) 0 (seq 0 n).

Lemma fsum_from_ext k n (f g : nat -> Q) :
  (forall i, (k <= i < k + n)%nat -> f i == g i) ->
  fold_right (fun i acc => f i + acc) 0 (seq k n) == fold_right (fun i acc => g i + acc) 0 (seq k n).
Proof.
  revert k. induction n as [|n IH]; intros k H; cbn; [reflexivity|].
  rewrite (H k) by lia. rewrite (IH (S k)); [reflexivity|]. intros i Hi. apply H. lia.
Qed.
Lemma fsum_ext n (f g : nat -> Q) : (forall i, (i < n)%nat -> f i == g i) -> fsum n f == fsum n g.
Proof. intros H. apply fsum_from_ext. intros i Hi. apply H. lia. Qed.

Lemma fsum_from_add k n (f g : nat -> Q) :
  fold_right (fun i acc => (f i + g i) + acc) 0 (seq k n) ==
  fold_right (fun i acc => f i + acc) 0 (seq k n) + fold_right (fun i acc => g i + acc) 0 (seq k n).
Proof. revert k. induction n as [|n IH]; intros k; cbn; [ring|]. rewrite IH. ring. Qed.
Lemma fsum_add n f g : fsum n (fun i => f i + g i) == fsum n f + fsum n g.
Proof. apply fsum_from_add. Qed.

Lemma fsum_from_scale k n c (f : nat -> Q) :
  fold_right (fun i acc => c * f i + acc) 0 (seq k n) == c * fold_right (fun i acc => f i + acc) 0 (seq k n).
Proof. revert k. induction n as [|n IH]; intros k; cbn; [ring|]. rewrite IH. ring. Qed.
Lemma fsum_scale n c f : fsum n (fun i => c * f i) == c * fsum n f.
Proof. apply fsum_from_scale. Qed.

Lemma fsum_zero m : fsum m (fun _ => 0) == 0.
Proof. unfold fsum. generalize 0%nat. induction m as [|m IH]; intros a; cbn; [reflexivity|]. rewrite IH. ring. Qed.

Lemma fsum_swap_from k n m (f : nat -> nat -> Q) :
  fold_right (fun i acc => fsum m (f i) + acc) 0 (seq k n) ==
  fsum m (fun j => fold_right (fun i acc => f i j + acc) 0 (seq k n)).
Proof.
  revert k. induction n as [|n IH]; intros k; cbn [seq fold_right].
  - symmetry. apply fsum_zero.
  - rewrite IH. rewrite <- fsum_add. apply fsum_ext. intros j _. reflexivity.
Qed.
Lemma fsum_swap n m (f : nat -> nat -> Q) :
  fsum n (fun i => fsum m (fun j => f i j)) == fsum m (fun j => fsum n (fun i => f i j)).
Proof. apply (fsum_swap_from 0 n m f). Qed.

Lemma fsum_from_abs_le k n (f : nat -> Q) (g : nat -> Q) :
  (forall i, (k <= i < k + n)%nat -> Qabs (f i) <= g i) ->
  Qabs (fold_right (fun i acc => f i + acc) 0 (seq k n)) <= fold_right (fun i acc => g i + acc) 0 (seq k n).
Proof.
  revert k. induction n as [|n IH]; intros k H; cbn; [apply Qle_refl|].
  eapply Qle_trans; [apply Qabs_triangle|]. apply Qplus_le_compat; [apply H; lia|].
  apply IH. intros i Hi. apply H. lia.
Qed.
Lemma fsum_abs_le n f g : (forall i, (i < n)%nat -> Qabs (f i) <= g i) -> Qabs (fsum n f) <= fsum n g.
Proof. intros H. apply fsum_from_abs_le. intros i Hi. apply H. lia. Qed.

Lemma fsum_delta n i (f : nat -> Q) : (i < n)%nat ->
  fsum n (fun j => (if Nat.eqb i j then 1 else 0) * f j) == f i.
Proof.
  intros Hi. unfold fsum.
  assert (G : forall k m, fold_right (fun j acc => (if Nat.eqb i j then 1 else 0) * f j + acc) 0 (seq k m)
              == if (Nat.leb k i && Nat.ltb i (k + m))%bool then f i else 0).
  { intros k m. revert k. induction m as [|m IH]; intros k; cbn [seq fold_right].
    - destruct (Nat.leb_spec k i); destruct (Nat.ltb_spec i (k + 0)); cbn; try reflexivity; lia.
    - rewrite IH. destruct (Nat.eqb_spec i k) as [->|Hne].
      + replace (Nat.leb (S k) k) with false by (symmetry; apply Nat.leb_gt; lia).
        replace (Nat.leb k k) with true by (symmetry; apply Nat.leb_le; lia).
        replace (Nat.ltb k (k + S m)) with true by (symmetry; apply Nat.ltb_lt; lia).
        cbn. ring.
      + destruct (Nat.leb_spec (S k) i); destruct (Nat.ltb_spec i (S k + m));
          destruct (Nat.leb_spec k i); destruct (Nat.ltb_spec i (k + S m)); cbn; try ring; lia. }
  rewrite G. replace (Nat.leb 0 i) with true by reflexivity.
  replace (Nat.ltb i (0 + n)) with true by (symmetry; apply Nat.ltb_lt; lia). reflexivity.
Qed.

(* square systems as functions; Kinv a left inverse of K on the first n indices *)
Definition mat_vec (n : nat) (K : nat -> nat -> Q) (u : nat -> Q) (i : nat) : Q := fsum n (fun j => K i j * u j).
Definition left_inverse (n : nat) (Kinv K : nat -> nat -> Q) : Prop :=
  forall i j, (i < n)%nat -> (j < n)%nat -> fsum n (fun k => Kinv i k * K k j) == if Nat.eqb i j then 1 else 0.

Lemma left_inverse_recovers n Kinv K w i : left_inverse n Kinv K -> (i < n)%nat ->
  fsum n (fun k => Kinv i k * mat_vec n K w k) == w i.
Proof.
  intros Hinv Hi. unfold mat_vec.
  transitivity (fsum n (fun k => fsum n (fun j => Kinv i k * K k j * w j))).
  { apply fsum_ext. intros k _. rewrite <- fsum_scale. apply fsum_ext. intros j _. ring. }
  rewrite fsum_swap.
  transitivity (fsum n (fun j => (if Nat.eqb i j then 1 else 0) * w j)).
  { apply fsum_ext. intros j Hj. rewrite <- (Hinv i j Hi Hj).
    transitivity (fsum n (fun k => w j * (Kinv i k * K k j))).
    - apply fsum_ext. intros k _. ring.
    - rewrite fsum_scale. ring. }
  apply fsum_delta. exact Hi.
Qed.

(* if every equation is met within eps by u and exactly by ustar, the displacement error at i
   is at most eps times the absolute row sum of the inverse *)
Theorem error_bound n Kinv K f u ustar eps :
  left_inverse n Kinv K ->
  (forall i, (i < n)%nat -> mat_vec n K ustar i == f i) ->
  (forall i, (i < n)%nat -> Qabs (f i - mat_vec n K u i) <= eps) ->
  forall i, (i < n)%nat -> Qabs (u i - ustar i) <= eps * fsum n (fun k => Qabs (Kinv i k)).
Proof.
  intros Hinv Hstar Hres i Hi.
  pose (w := fun j => u j - ustar j).
  assert (Hw : u i - ustar i == fsum n (fun k => Kinv i k * mat_vec n K w k)).
  { symmetry. apply (left_inverse_recovers n Kinv K w i Hinv Hi). }
  rewrite Hw.
  assert (Hlin : forall k, (k < n)%nat -> mat_vec n K w k == mat_vec n K u k - f k).
  { intros k Hk. rewrite <- (Hstar k Hk). unfold mat_vec, w.
    transitivity (fsum n (fun j => K k j * u j + (-1) * (K k j * ustar j))).
    - apply fsum_ext. intros j _. ring.
    - rewrite fsum_add, fsum_scale. ring. }
  rewrite <- fsum_scale.
  apply fsum_abs_le. intros k Hk. rewrite Qabs_Qmult, (Hlin k Hk).
  setoid_replace (mat_vec n K u k - f k) with (- (f k - mat_vec n K u k)) by ring.
  rewrite Qabs_opp.
  setoid_replace (Qabs (Kinv i k) * Qabs (f k - mat_vec n K u k)) with (Qabs (f k - mat_vec n K u k) * Qabs (Kinv i k)) by ring.
  apply Qmult_le_compat_r; [apply Hres; exact Hk | apply Qabs_nonneg].
Qed.

Theorem unique_solution n Kinv K f u1 u2 :
  left_inverse n Kinv K ->
  (forall i, (i < n)%nat -> mat_vec n K u1 i == f i) ->
  (forall i, (i < n)%nat -> mat_vec n K u2 i == f i) ->
  forall i, (i < n)%nat -> u1 i == u2 i.
Proof.
  intros Hinv H1 H2 i Hi.
  assert (H : Qabs (u1 i - u2 i) <= 0 * fsum n (fun k => Qabs (Kinv i k))).
  { apply (error_bound n Kinv K f u1 u2 0 Hinv H2); [| exact Hi].
    intros k Hk. rewrite (H1 k Hk). setoid_replace (f k - f k) with 0 by ring. apply Qle_refl. }
  rewrite Qmult_0_l in H. apply Qabs_Qle_condition in H as [Hlo Hhi].
  assert (Hd : u1 i - u2 i == 0) by (apply Qle_antisym; [exact Hhi | exact Hlo]).
  setoid_replace (u1 i) with (u1 i - u2 i + u2 i) by ring. rewrite Hd. ring.
Qed.
