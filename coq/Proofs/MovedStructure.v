(* C07 for a whole structure of the model: the structure moved elsewhere (every coordinate shifted by (dx, dy)) is sliced
   alike, gets the same matrix and - up to == - the same load vector: whatever solves the one system solves the other. *)
From Coq Require Import ZArith QArith Qabs List Bool Arith Lia Lqa Setoid Morphisms.
From Inkfem Require Import Num.NumOps Gen.GenConsts Gen.GenStiffness Gen.GenLoads Spec.Stiffness Spec.Superposition Model.Types Model.Slice Model.Loads
  Model.Dof Model.Assemble Model.Recover Spec.Resultant Proofs.LoadsProofs Proofs.RecoverProofs Proofs.FieldProofs Proofs.AssembleProofs
  Proofs.SystemProofs Proofs.UnitsBar Proofs.LinearStructure Proofs.UnitsStructure.
Import ListNotations.
Local Open Scope Q_scope.

Section Moved.
Variables dx dy : Q.
Variable w : bool.

Definition moved_all (bs : list (bar Q)) : list (bar Q) := map (moved_bar dx dy) bs.

Definition node_same (n n' : pnode Q) : Prop :=
  pn_t n' = pn_t n /\ tor_eq (pn_ext n') (pn_ext n) /\ tor_eq (pn_left n') (pn_left n) /\ tor_eq (pn_right n') (pn_right n).

Lemma moved_nodes b : Forall2 node_same (preprocess_bar w b) (preprocess_bar w (moved_bar dx dy b)).
Proof.
  eapply Forall2_weaken; [| exact (moved_bar_is_sliced_alike dx dy w b)].
  intros n n' (T & _ & _ & E & L & R). split; [exact T|]. split; [exact E|]. split; [exact L | exact R].
Qed.

(* stiffness terms: the positions of the nodes only, and the bar's length, direction, material, section *)
Lemma moved_contribs b d : bar_contribs (prepared w (moved_bar dx dy b) d) = bar_contribs (prepared w b d).
Proof.
  unfold bar_contribs, prepared. cbn [pb_bar pb_nodes pb_dofs].
  pose proof (moved_nodes b) as H.
  destruct H as [|n n' r r' (Tn & _) Hr]; [reflexivity|]. destruct d as [|e ds]; [reflexivity|]. cbn [combine].
  assert (Hb : forall x dx0 rest, bar_contribs_from (moved_bar dx dy b) x dx0 rest = bar_contribs_from b x dx0 rest).
  { intros x dx0 rest. revert x dx0. induction rest as [|(y, dy0) rest IHr]; intros x dx0; [reflexivity|].
    cbn [bar_contribs_from]. rewrite IHr. reflexivity. }
  rewrite Hb. apply contribs_from_positions; [exact Tn|].
  clear -Hr. induction Hr as [|m m' r r' (Tm & _) _ IH]; constructor; assumption.
Qed.

Lemma net_same n n' : node_same n n' -> tor_eq (pn_net n') (pn_net n).
Proof.
  intros (_ & (E1 & E2 & E3) & (L1 & L2 & L3) & (R1 & R2 & R3)).
  unfold tor_eq, pn_net, tor_add, t_fx, t_fy, t_mz in *. cbn [fst snd nadd QOps] in *.
  rewrite E1, E2, E3, L1, L2, L3, R1, R2, R3. repeat split; reflexivity.
Qed.

Lemma moved_fterms b d i : fraw_at (bar_fterms (prepared w (moved_bar dx dy b) d)) i == fraw_at (bar_fterms (prepared w b d)) i.
Proof.
  unfold bar_fterms, prepared. cbn [pb_bar pb_nodes pb_dofs]. pose proof (moved_nodes b) as H. revert d.
  induction H as [|n n' r r' Hn _ IH]; intros d; [reflexivity|].
  destruct d as [|e ds]; [reflexivity|]. cbn [combine flat_map]. rewrite !fraw_at_app, (IH ds).
  assert (E : fraw_at (node_fterms (moved_bar dx dy b) (n', e)) i == fraw_at (node_fterms b (n, e)) i).
  { destruct (net_same n n' Hn) as (H1 & H2 & H3).
    unfold node_fterms. cbn [moved_bar b_c b_s]. rewrite !fraw_at_cons, !fraw_at_nil. cbn [fst snd].
    unfold to_global, t_fx, t_fy, t_mz in *. cbn [fst snd nadd nmul nsub QOps] in *.
    destruct (Nat.eqb (fst (fst e)) i), (Nat.eqb (snd (fst e)) i), (Nat.eqb (snd e) i); rewrite ?H1, ?H2, ?H3; reflexivity. }
  rewrite E. reflexivity.
Qed.

Lemma moved_all_contribs : forall bs ds, all_contribs (prepared_all w (moved_all bs) ds) = all_contribs (prepared_all w bs ds).
Proof.
  unfold all_contribs, prepared_all, moved_all. induction bs as [|b bs IH]; intros ds; [reflexivity|].
  destruct ds as [|d ds]; [reflexivity|]. cbn [map combine flat_map fst snd]. rewrite (IH ds), moved_contribs. reflexivity.
Qed.

Lemma moved_all_fterms : forall bs ds i, fraw_at (all_fterms (prepared_all w (moved_all bs) ds)) i == fraw_at (all_fterms (prepared_all w bs ds)) i.
Proof.
  unfold all_fterms, prepared_all, moved_all. induction bs as [|b bs IH]; intros ds i; [reflexivity|].
  destruct ds as [|d ds]; [reflexivity|]. cbn [map combine flat_map fst snd]. rewrite !fraw_at_app, (IH ds i), moved_fterms. reflexivity.
Qed.

(* THEOREM (C07, whole structure): moved elsewhere, the structure gets the same system; the same displacements solve it *)
Theorem moved_structure_same_system (n : nat) (bs : list (bar Q)) (ds : list (list dof3)) (sup : list nat) (u : list Q) :
  (forall i j, k_final (all_contribs (prepared_all w (moved_all bs) ds)) sup i j = k_final (all_contribs (prepared_all w bs ds)) sup i j) /\
  (forall i, f_final (all_fterms (prepared_all w (moved_all bs) ds)) sup i == f_final (all_fterms (prepared_all w bs ds)) sup i) /\
  (solves n (prepared_all w bs ds) sup u -> solves n (prepared_all w (moved_all bs) ds) sup u).
Proof.
  assert (K : forall i j, k_final (all_contribs (prepared_all w (moved_all bs) ds)) sup i j = k_final (all_contribs (prepared_all w bs ds)) sup i j)
    by (intros i j; rewrite moved_all_contribs; reflexivity).
  assert (F : forall i, f_final (all_fterms (prepared_all w (moved_all bs) ds)) sup i == f_final (all_fterms (prepared_all w bs ds)) sup i).
  { intro i. unfold f_final. destruct (is_supported sup i); [reflexivity | apply moved_all_fterms]. }
  split; [exact K|]. split; [exact F|].
  intros Hs i Hi. rewrite (F i), <- (Hs i Hi). unfold row_times. rewrite moved_all_contribs. reflexivity.
Qed.

End Moved.
