(* From the solver's own stopping test to the exact response: when the loop of Gen/GenPcg.v leaves because every entry of its r is
   within the tolerance solve hands it (error / 2, Gen/GenSolver.v), the answer it returns is within  error x sum_k |K^-1 i k|  of
   the exact solution of the system, entry by entry (C01_error_bound with the residual invariant of Proofs/PcgProofs.v). *)
From Coq Require Import ZArith QArith Qabs List Bool Arith Lia Setoid.
From Inkfem Require Import Num.NumOps Gen.GenPcg Gen.GenSolver Gen.GenAccept Proofs.SolverProofs Proofs.AcceptBound Proofs.PcgProofs Proofs.PcgAccept
  Proofs.FieldProofs.
Import ListNotations.
Local Open Scope Q_scope.

Lemma fold_left_is_fold_right (h : nat -> Q) : forall l,
  fold_left (fun acc j => acc + h j) l 0 == fold_right (fun i acc => h i + acc) 0 l.
Proof.
  induction l as [|j l IH]; [reflexivity|]. cbn [fold_left fold_right].
  rewrite (fold_add h l (0 + h j)), IH. ring.
Qed.

Lemma pcg_mv_is_mat_vec (n : nat) (K : nat -> nat -> Q) (u : nat -> Q) (i : nat) : pcg_mv n K u i == mat_vec n K u i.
Proof. unfold pcg_mv, mat_vec, fsum. apply (fold_left_is_fold_right (fun j => K i j * u j)). Qed.

Theorem good_enough_for_the_solver_is_near_the_exact_response (n : nat) (Kinv K : nat -> nat -> Q) (f ustar : nat -> Q) (e : Q) (k : nat) :
  left_inverse n Kinv K ->
  (forall i, (i < n)%nat -> mat_vec n K ustar i == f i) ->
  0 <= e ->
  (forall i, (i < n)%nat -> Qabs (pcg_r (pcg_iter n K k (pcg_init n K f)) i) <= solver_tolerance (O:=QOps) e) ->
  forall i, (i < n)%nat -> Qabs (pcg_answer n K f k i - ustar i) <= e * fsum n (fun j => Qabs (Kinv i j)).
Proof.
  intros HL Hs He Hr i Hi.
  apply (error_bound n Kinv K f (pcg_answer n K f k) ustar e HL Hs); [| exact Hi].
  intros j Hj. rewrite <- (pcg_mv_is_mat_vec n K (pcg_answer n K f k) j).
  rewrite <- (accept_bound_is_the_option e).
  apply (good_enough_for_the_solver_is_good_enough n K f e k He Hr j Hj).
Qed.
