(* Comparison functions of the correspondence check, evaluated inside Coq by vm_compute
   on case files (Corr/cases_*.v) that the harness writes on every run.  The model is
   executed at the BigQ instance of the number classes (see Num/BigQOps.v). *)
From Bignums Require Import BigQ.
From Coq Require Import ZArith QArith Qabs List.
From Inkfem Require Import Num.NumOps Num.BigQOps Gen.GenStiffness Model.Types Model.Slice Model.Loads.
Import ListNotations.

(* m / 2^e : how the harness writes a float64 *)
Definition dy (m : Z) (e : positive) : Q := Qmake m (Pos.shiftl 1 (Npos e)).
Arguments dy m%Z e%positive.

Definition indexed {A} (l : list A) : list (nat * A) := combine (seq 0 (length l)) l.

(* ---- C20: generated stiffness kernel vs Element.StiffnessGlobalMat ---- *)
Record stiff_case := {
  sc_L : Q; sc_c : Q; sc_s : Q; sc_t1 : Q; sc_t2 : Q; sc_E : Q; sc_A : Q; sc_I : Q;
  sc_K : list (list Q) }.

Definition stiff_mismatch (tol : Q) (kc : nat * stiff_case) : list (nat * nat * nat) :=
  let (k, x) := kc in
  let L := bq (sc_L x) in let c := bq (sc_c x) in let s := bq (sc_s x) in
  let t1 := bq (sc_t1 x) in let t2 := bq (sc_t2 x) in
  let E := bq (sc_E x) in let A := bq (sc_A x) in let II := bq (sc_I x) in
  let m := stiff_gen (O:=BigQOps) L c s t1 t2 E A II in
  let g := stiff_gen (O:=MagOps) (einj L) (einj c) (einj s) (einj t1) (einj t2) (einj E) (einj A) (einj II) in
  if negb (Nat.eqb (length (sc_K x)) 6) then [(k, 99, 99)%nat] else
  flat_map (fun i => flat_map (fun j =>
      if close (bq tol) (snd (entry (O:=MagOps) g i j)) (entry m i j) (bq (entry (O:=QOps) (sc_K x) i j))
      then [] else [(k, i, j)])
    (seq 0 6)) (seq 0 6).

Definition stiff_mismatches (tol : Q) (cs : list stiff_case) : list (nat * nat * nat) :=
  flat_map (stiff_mismatch tol) (indexed cs).

(* ---- execution number type: (value, error scale) pairs over bigQ ---- *)
Definition X : Type := (bigQ * bigQ)%type.
#[export] Instance XOps : NumOps X := MagOps (F:=bigQ).
#[export] Instance XCmp : NumCmp X := MagCmp (F:=bigQ).
Definition xq (q : Q) : X := einj (bq q).
(* implementation value v agrees with model value m = (value, scale) *)
Definition agrees (tol : Q) (m : X) (v : Q) : bool :=
  close (bq tol) (snd m) (fst m) (bq v).
(* same, with an additional absolute allowance *)
Definition agrees_abs (tol atol : Q) (m : X) (v : Q) : bool :=
  nleb (nabs (nsub (fst m) (bq v))) (nadd (nmul (bq tol) (snd m)) (bq atol)).
Definition agrees_tor (tol : Q) (m : tor X) (v : tor Q) : bool :=
  agrees tol (t_fx m) (t_fx v) && agrees tol (t_fy m) (t_fy v) && agrees tol (t_mz m) (t_mz v).

(* ---- stage B: sliced bars (positions, coordinates, ext / left / right loads) ---- *)
(* mismatch = (bar index, node index, field) ; field 0 = node count, 1 = t, 2 = x, 3 = y,
   4 = ext, 5 = left, 6 = right *)
Definition cmp_node (tol : Q) (bi ni : nat) (m : pnode X) (o : pnode Q) : list (nat * nat * nat) :=
  (if agrees_abs tol (1 # 1000000000000) (pn_t m) (pn_t o) then [] else [(bi, ni, 1%nat)]) ++
  (if agrees tol (pn_x m) (pn_x o) then [] else [(bi, ni, 2%nat)]) ++
  (if agrees tol (pn_y m) (pn_y o) then [] else [(bi, ni, 3%nat)]) ++
  (if agrees_tor tol (pn_ext m) (pn_ext o) then [] else [(bi, ni, 4%nat)]) ++
  (if agrees_tor tol (pn_left m) (pn_left o) then [] else [(bi, ni, 5%nat)]) ++
  (if agrees_tor tol (pn_right m) (pn_right o) then [] else [(bi, ni, 6%nat)]).

Definition cmp_sliced_bar (tol : Q) (weight : bool) (bi : nat) (b : bar Q) (obs : list (pnode Q))
  : list (nat * nat * nat) :=
  let m := preprocess_bar weight (bar_map xq b) in
  if negb (Nat.eqb (length m) (length obs)) then [(bi, length m, 0%nat)] else
  flat_map (fun p => cmp_node tol bi (fst p) (fst (snd p)) (snd (snd p))) (indexed (combine m obs)).

Definition cmp_sliced (tol : Q) (weight : bool) (bars : list (bar Q * list (pnode Q))) : list (nat * nat * nat) :=
  flat_map (fun p => cmp_sliced_bar tol weight (fst p) (fst (snd p)) (snd (snd p))) (indexed bars).

(* ---- stage C: equation numbers ---- *)
From Inkfem Require Import Model.Dof Model.Assemble.
(* observed: per bar (in the implementation's processing order) its skeleton and the numbers of
   its slice nodes; the numbers of the structural nodes; the count.  Mismatch codes:
   (0, _, _) count, (1, bar, node) slice-node numbers, (2, node, _) structural node numbers,
   (3, bar, _) number of triples *)
Definition d3_eqb (a b : dof3) : bool :=
  Nat.eqb (fst (fst a)) (fst (fst b)) && Nat.eqb (snd (fst a)) (snd (fst b)) && Nat.eqb (snd a) (snd b).
Definition cmp_dofs (obs : list (skel * list dof3)) (onodes : list (nat * dof3)) (ocount : nat)
  : list (nat * nat * nat) :=
  let r := assign (map fst obs) in
  let count := fst (fst r) in let nd := snd (fst r) in let bd := snd r in
  (if Nat.eqb count ocount then [] else [(0, count, ocount)%nat]) ++
  flat_map (fun p => let bi := fst p in let m := fst (snd p) in let o := snd (snd (snd p)) in
      if negb (Nat.eqb (length m) (length o)) then [(3, bi, length m)%nat] else
      flat_map (fun q => if d3_eqb (fst (snd q)) (snd (snd q)) then [] else [(1, bi, fst q)%nat])
               (indexed (combine m o)))
    (indexed (combine bd obs)) ++
  flat_map (fun p => match lookup (fst p) nd with
                     | Some d => if d3_eqb d (snd p) then [] else [(2, fst p, 0)%nat]
                     | None => [(2, fst p, 1)%nat] end) onodes.

(* ---- stage D: assembled system ---- *)
From Coq Require Import FMapPositive.
Definition key (n : N) (i j : nat) : positive := N.succ_pos (N.of_nat i * n + N.of_nat j).
Definition kmap_add (m : PositiveMap.t X) (k : positive) (v : X) : PositiveMap.t X :=
  PositiveMap.add k (match PositiveMap.find k m with Some x => nadd x v | None => v end) m.
(* fast evaluation of kraw_at for all keys at once (cross-checked against the definitional
   k_final on sampled entries by cmp_system) *)
Definition kmap (n : N) (cs : list (nat * nat * X)) : PositiveMap.t X :=
  fold_left (fun m c => kmap_add m (key n (fst (fst c)) (snd (fst c))) (snd c)) cs (PositiveMap.empty X).
Definition fmap (fs : list (nat * X)) : PositiveMap.t X :=
  fold_left (fun m c => kmap_add m (Pos.of_succ_nat (fst c)) (snd c)) fs (PositiveMap.empty X).
Definition rowset (cs : list (nat * nat * X)) : PositiveMap.t unit :=
  fold_left (fun m c => PositiveMap.add (Pos.of_succ_nat (fst (fst c))) tt m) cs (PositiveMap.empty unit).
Definition supset (sup : list nat) : PositiveMap.t unit :=
  fold_left (fun m d => PositiveMap.add (Pos.of_succ_nat d) tt m) sup (PositiveMap.empty unit).
Definition mem (m : PositiveMap.t unit) (i : nat) : bool :=
  match PositiveMap.find (Pos.of_succ_nat i) m with Some _ => true | None => false end.
Definition x0 : X := (n0, n0).
Definition x1 : X := (n1, n1).

Record sys_case := {
  sy_bars : list (pbar Q);                  (* bars with the implementation's nodes and numbers *)
  sy_nodes : list (link * dof3);            (* externally constrained structural nodes *)
  sy_n : nat;                               (* equation count *)
  sy_K : list (nat * nat * Q);              (* implementation's stored entries *)
  sy_F : list Q;
  sy_sample : list (nat * nat)              (* entries on which the definitional k_final is also evaluated *)
}.

Definition pbar_x (p : pbar Q) : pbar X :=
  {| pb_bar := bar_map xq (pb_bar p); pb_nodes := map (pnode_map xq) (pb_nodes p); pb_dofs := pb_dofs p |}.

(* mismatch codes: (1,i,j) K entry differs; (2,i,j) model entry missing in the implementation;
   (3,i,_) f entry differs; (4,i,j) fast and definitional evaluation of the model disagree *)
Definition cmp_system (tol : Q) (c : sys_case) : list (nat * nat * nat) :=
  let bars := map pbar_x (sy_bars c) in
  let cs := all_contribs bars in
  let fs := all_fterms bars in
  let sup := supported_of (sy_nodes c) in
  let n := N.of_nat (sy_n c) in
  let km := kmap n cs in let fm := fmap fs in let rows := rowset cs in let ss := supset sup in
  let kfin (i j : nat) : X :=
    if mem ss i || mem ss j then (if Nat.eqb i j then x1 else x0)
    else if negb (mem rows i) then (if Nat.eqb i j then x1 else x0)
    else match PositiveMap.find (key n i j) km with Some v => v | None => x0 end in
  let ffin (i : nat) : X :=
    if mem ss i then x0 else match PositiveMap.find (Pos.of_succ_nat i) fm with Some v => v | None => x0 end in
  let okeys := fold_left (fun m e => PositiveMap.add (key n (fst (fst e)) (snd (fst e))) tt m) (sy_K c) (PositiveMap.empty unit) in
  flat_map (fun e => let i := fst (fst e) in let j := snd (fst e) in
              if agrees tol (kfin i j) (snd e) then [] else [(1, i, j)%nat]) (sy_K c) ++
  flat_map (fun cc => let i := fst (fst cc) in let j := snd (fst cc) in
              match PositiveMap.find (key n i j) okeys with
              | Some _ => []
              | None => if agrees tol (kfin i j) 0 then [] else [(2, i, j)%nat]
              end) cs ++
  flat_map (fun p => if agrees tol (ffin (fst p)) (snd p) then [] else [(3, fst p, 0)%nat]) (indexed (sy_F c)) ++
  (if Nat.eqb (length (sy_F c)) (sy_n c) then [] else [(3, length (sy_F c), 1)%nat]) ++
  flat_map (fun ij => let i := fst ij in let j := snd ij in
              let d := k_final cs sup i j in let f := kfin i j in
              if neqb (fst d) (fst f) && neqb (snd d) (snd f)
                 && neqb (fst (f_final fs sup i)) (fst (ffin i)) then [] else [(4, i, j)%nat]) (sy_sample c).

(* ---- C04: the statement of bar_equivalence evaluated on a case (a test of the theorem's
   statement on the bars the implementation ran, not a proof) ---- *)
From Inkfem Require Import Spec.Resultant.
Definition near (tol : Q) (a b : X) : bool :=
  nleb (nabs (nsub (fst a) (fst b))) (nmul (bq tol) (nadd (snd a) (snd b))).
Definition cmp_resultant (tol : Q) (weight : bool) (bi : nat) (b : bar Q) : list (nat * nat) :=
  let bx := bar_map xq b in
  let bw := if weight then with_own_weight bx else bx in
  let lhs := sum_about_start bw (slice_bar bw) in
  let rhs := resultant bw in
  (if near tol (t_fx lhs) (t_fx rhs) then [] else [(bi, 0%nat)]) ++
  (if near tol (t_fy lhs) (t_fy rhs) then [] else [(bi, 1%nat)]) ++
  (if near tol (t_mz lhs) (t_mz rhs) then [] else [(bi, 2%nat)]).
Definition cmp_resultants (tol : Q) (weight : bool) (bars : list (bar Q * list (pnode Q))) : list (nat * nat) :=
  flat_map (fun p => cmp_resultant tol weight (fst p) (fst (snd p))) (indexed bars).
