(* Comparison functions of the correspondence check, evaluated inside Coq by vm_compute
   on case files (Corr/cases_*.v) that the harness writes on every run.  The model is
   executed at the BigQ instance of the number classes (see Num/BigQOps.v). *)
From Bignums Require Import BigQ.
From Coq Require Import ZArith QArith Qabs List.
From Inkfem Require Import Num.NumOps Num.BigQOps Gen.GenStiffness.
Import ListNotations.

Definition indexed {A} (l : list A) : list (nat * A) := combine (seq 0 (length l)) l.

(* ---- C20: generated stiffness kernel vs Element.StiffnessGlobalMat ---- *)
Record stiff_case := {
  sc_L : Q; sc_c : Q; sc_s : Q; sc_t1 : Q; sc_t2 : Q; sc_E : Q; sc_A : Q; sc_I : Q;
  sc_K : list (list Q) }.

Definition stiff_mismatch (tol : Q) (kc : nat * stiff_case) : list (nat * nat * nat) :=
  let (k, x) := kc in
  let L := bq (sc_L x) in let c := bq (sc_c x) in let s := bq (sc_s x) in
  let t1 := bq (sc_t1 x) in let t2 := bq (sc_t2 x) in
  let E := bq (sc_E x) in let A := bq (sc_A x) in let II := bq (sc_I x) in
  let m := stiff_gen (O:=BigQOps) L c s t1 t2 E A II in
  let g := stiff_gen (O:=MagOps) (einj L) (einj c) (einj s) (einj t1) (einj t2) (einj E) (einj A) (einj II) in
  if negb (Nat.eqb (length (sc_K x)) 6) then [(k, 99, 99)%nat] else
  flat_map (fun i => flat_map (fun j =>
      if close (bq tol) (snd (entry (O:=MagOps) g i j)) (entry m i j) (bq (entry (O:=QOps) (sc_K x) i j))
      then [] else [(k, i, j)])
    (seq 0 6)) (seq 0 6).

Definition stiff_mismatches (tol : Q) (cs : list stiff_case) : list (nat * nat * nat) :=
  flat_map (stiff_mismatch tol) (indexed cs).
