(* Comparison functions of the correspondence check, evaluated inside Coq by vm_compute
   on case files (Corr/cases_*.v) that the harness writes on every run.  The model is
   executed at the BigQ instance of the number classes (see Num/BigQOps.v). *)
From Bignums Require Import BigQ.
From Coq Require Import ZArith QArith Qabs List.
From Inkfem Require Import Num.NumOps Num.BigQOps Gen.GenStiffness Model.Types Model.Slice Model.Loads.
Import ListNotations.

(* m / 2^e : how the harness writes a float64 *)
Definition dy (m : Z) (e : positive) : Q := Qmake m (Pos.shiftl 1 (Npos e)).
Arguments dy m%Z e%positive.

Definition indexed {A} (l : list A) : list (nat * A) := combine (seq 0 (length l)) l.

(* ---- C20: generated stiffness kernel vs Element.StiffnessGlobalMat ---- *)
Record stiff_case := {
  sc_L : Q; sc_c : Q; sc_s : Q; sc_t1 : Q; sc_t2 : Q; sc_E : Q; sc_A : Q; sc_I : Q;
  sc_K : list (list Q) }.

Definition stiff_mismatch (tol : Q) (kc : nat * stiff_case) : list (nat * nat * nat) :=
  let (k, x) := kc in
  let L := bq (sc_L x) in let c := bq (sc_c x) in let s := bq (sc_s x) in
  let t1 := bq (sc_t1 x) in let t2 := bq (sc_t2 x) in
  let E := bq (sc_E x) in let A := bq (sc_A x) in let II := bq (sc_I x) in
  let m := stiff_gen (O:=BigQOps) L c s t1 t2 E A II in
  let g := stiff_gen (O:=MagOps) (einj L) (einj c) (einj s) (einj t1) (einj t2) (einj E) (einj A) (einj II) in
  if negb (Nat.eqb (length (sc_K x)) 6) then [(k, 99, 99)%nat] else
  flat_map (fun i => flat_map (fun j =>
      if close (bq tol) (snd (entry (O:=MagOps) g i j)) (entry m i j) (bq (entry (O:=QOps) (sc_K x) i j))
      then [] else [(k, i, j)])
    (seq 0 6)) (seq 0 6).

Definition stiff_mismatches (tol : Q) (cs : list stiff_case) : list (nat * nat * nat) :=
  flat_map (stiff_mismatch tol) (indexed cs).

(* ---- execution number type: (value, error scale) pairs over bigQ ---- *)
Definition X : Type := (bigQ * bigQ)%type.
#[export] Instance XOps : NumOps X := MagOps (F:=bigQ).
#[export] Instance XCmp : NumCmp X := MagCmp (F:=bigQ).
Definition xq (q : Q) : X := einj (bq q).
(* implementation value v agrees with model value m = (value, scale) *)
Definition agrees (tol : Q) (m : X) (v : Q) : bool :=
  close (bq tol) (snd m) (fst m) (bq v).
(* same, with an additional absolute allowance *)
Definition agrees_abs (tol atol : Q) (m : X) (v : Q) : bool :=
  nleb (nabs (nsub (fst m) (bq v))) (nadd (nmul (bq tol) (snd m)) (bq atol)).
Definition agrees_tor (tol : Q) (m : tor X) (v : tor Q) : bool :=
  agrees tol (t_fx m) (t_fx v) && agrees tol (t_fy m) (t_fy v) && agrees tol (t_mz m) (t_mz v).

(* ---- stage B: sliced bars (positions, coordinates, ext / left / right loads) ---- *)
(* mismatch = (bar index, node index, field) ; field 0 = node count, 1 = t, 2 = x, 3 = y,
   4 = ext, 5 = left, 6 = right *)
Definition cmp_node (tol : Q) (bi ni : nat) (m : pnode X) (o : pnode Q) : list (nat * nat * nat) :=
  (if agrees_abs tol (1 # 1000000000000) (pn_t m) (pn_t o) then [] else [(bi, ni, 1%nat)]) ++
  (if agrees tol (pn_x m) (pn_x o) then [] else [(bi, ni, 2%nat)]) ++
  (if agrees tol (pn_y m) (pn_y o) then [] else [(bi, ni, 3%nat)]) ++
  (if agrees_tor tol (pn_ext m) (pn_ext o) then [] else [(bi, ni, 4%nat)]) ++
  (if agrees_tor tol (pn_left m) (pn_left o) then [] else [(bi, ni, 5%nat)]) ++
  (if agrees_tor tol (pn_right m) (pn_right o) then [] else [(bi, ni, 6%nat)]).

Definition cmp_sliced_bar (tol : Q) (weight : bool) (bi : nat) (b : bar Q) (obs : list (pnode Q))
  : list (nat * nat * nat) :=
  let m := preprocess_bar weight (bar_map xq b) in
  if negb (Nat.eqb (length m) (length obs)) then [(bi, length m, 0%nat)] else
  flat_map (fun p => cmp_node tol bi (fst p) (fst (snd p)) (snd (snd p))) (indexed (combine m obs)).

Definition cmp_sliced (tol : Q) (weight : bool) (bars : list (bar Q * list (pnode Q))) : list (nat * nat * nat) :=
  flat_map (fun p => cmp_sliced_bar tol weight (fst p) (fst (snd p)) (snd (snd p))) (indexed bars).

(* ---- stage C: equation numbers ---- *)
From Inkfem Require Import Model.Dof Model.Assemble.
(* observed: per bar (in the implementation's processing order) its skeleton and the numbers of
   its slice nodes; the numbers of the structural nodes; the count.  Mismatch codes:
   (0, _, _) count, (1, bar, node) slice-node numbers, (2, node, _) structural node numbers,
   (3, bar, _) number of triples *)
Definition d3_eqb (a b : dof3) : bool :=
  Nat.eqb (fst (fst a)) (fst (fst b)) && Nat.eqb (snd (fst a)) (snd (fst b)) && Nat.eqb (snd a) (snd b).
Definition cmp_dofs (obs : list (skel * list dof3)) (onodes : list (nat * dof3)) (ocount : nat)
  : list (nat * nat * nat) :=
  let r := assign (map fst obs) in
  let count := fst (fst r) in let nd := snd (fst r) in let bd := snd r in
  (if Nat.eqb count ocount then [] else [(0, count, ocount)%nat]) ++
  flat_map (fun p => let bi := fst p in let m := fst (snd p) in let o := snd (snd (snd p)) in
      if negb (Nat.eqb (length m) (length o)) then [(3, bi, length m)%nat] else
      flat_map (fun q => if d3_eqb (fst (snd q)) (snd (snd q)) then [] else [(1, bi, fst q)%nat])
               (indexed (combine m o)))
    (indexed (combine bd obs)) ++
  flat_map (fun p => match lookup (fst p) nd with
                     | Some d => if d3_eqb d (snd p) then [] else [(2, fst p, 0)%nat]
                     | None => [(2, fst p, 1)%nat] end) onodes.

(* ---- stage D: assembled system ---- *)
From Coq Require Import FMapPositive.
Definition key (n : N) (i j : nat) : positive := N.succ_pos (N.of_nat i * n + N.of_nat j).
Definition kmap_add (m : PositiveMap.t X) (k : positive) (v : X) : PositiveMap.t X :=
  PositiveMap.add k (match PositiveMap.find k m with Some x => nadd x v | None => v end) m.
(* fast evaluation of kraw_at for all keys at once (cross-checked against the definitional
   k_final on sampled entries by cmp_system) *)
Definition kmap (n : N) (cs : list (nat * nat * X)) : PositiveMap.t X :=
  fold_left (fun m c => kmap_add m (key n (fst (fst c)) (snd (fst c))) (snd c)) cs (PositiveMap.empty X).
Definition fmap (fs : list (nat * X)) : PositiveMap.t X :=
  fold_left (fun m c => kmap_add m (Pos.of_succ_nat (fst c)) (snd c)) fs (PositiveMap.empty X).
Definition rowset (cs : list (nat * nat * X)) : PositiveMap.t unit :=
  fold_left (fun m c => PositiveMap.add (Pos.of_succ_nat (fst (fst c))) tt m) cs (PositiveMap.empty unit).
Definition supset (sup : list nat) : PositiveMap.t unit :=
  fold_left (fun m d => PositiveMap.add (Pos.of_succ_nat d) tt m) sup (PositiveMap.empty unit).
Definition mem (m : PositiveMap.t unit) (i : nat) : bool :=
  match PositiveMap.find (Pos.of_succ_nat i) m with Some _ => true | None => false end.
Definition x0 : X := (n0, n0).
Definition x1 : X := (n1, n1).

Record sys_case := {
  sy_bars : list (pbar Q);                  (* bars with the implementation's nodes and numbers *)
  sy_nodes : list (link * dof3);            (* externally constrained structural nodes *)
  sy_n : nat;                               (* equation count *)
  sy_K : list (nat * nat * Q);              (* implementation's stored entries *)
  sy_F : list Q;
  sy_sample : list (nat * nat)              (* entries on which the definitional k_final is also evaluated *)
}.

Definition pbar_x (p : pbar Q) : pbar X :=
  {| pb_bar := bar_map xq (pb_bar p); pb_nodes := map (pnode_map xq) (pb_nodes p); pb_dofs := pb_dofs p |}.

(* mismatch codes: (1,i,j) K entry differs; (2,i,j) model entry missing in the implementation;
   (3,i,_) f entry differs; (4,i,j) fast and definitional evaluation of the model disagree *)
Definition cmp_system (tol : Q) (c : sys_case) : list (nat * nat * nat) :=
  let bars := map pbar_x (sy_bars c) in
  let cs := all_contribs bars in
  let fs := all_fterms bars in
  let sup := supported_of (sy_nodes c) in
  let n := N.of_nat (sy_n c) in
  let km := kmap n cs in let fm := fmap fs in let rows := rowset cs in let ss := supset sup in
  let kfin (i j : nat) : X :=
    if mem ss i || mem ss j then (if Nat.eqb i j then x1 else x0)
    else if negb (mem rows i) then (if Nat.eqb i j then x1 else x0)
    else match PositiveMap.find (key n i j) km with Some v => v | None => x0 end in
  let ffin (i : nat) : X :=
    if mem ss i then x0 else match PositiveMap.find (Pos.of_succ_nat i) fm with Some v => v | None => x0 end in
  let okeys := fold_left (fun m e => PositiveMap.add (key n (fst (fst e)) (snd (fst e))) tt m) (sy_K c) (PositiveMap.empty unit) in
  flat_map (fun e => let i := fst (fst e) in let j := snd (fst e) in
              if agrees tol (kfin i j) (snd e) then [] else [(1, i, j)%nat]) (sy_K c) ++
  flat_map (fun cc => let i := fst (fst cc) in let j := snd (fst cc) in
              match PositiveMap.find (key n i j) okeys with
              | Some _ => []
              | None => if agrees tol (kfin i j) 0 then [] else [(2, i, j)%nat]
              end) cs ++
  flat_map (fun p => if agrees tol (ffin (fst p)) (snd p) then [] else [(3, fst p, 0)%nat]) (indexed (sy_F c)) ++
  (if Nat.eqb (length (sy_F c)) (sy_n c) then [] else [(3, length (sy_F c), 1)%nat]) ++
  flat_map (fun ij => let i := fst ij in let j := snd ij in
              let d := k_final cs sup i j in let f := kfin i j in
              if neqb (fst d) (fst f) && neqb (snd d) (snd f)
                 && neqb (fst (f_final fs sup i)) (fst (ffin i)) then [] else [(4, i, j)%nat]) (sy_sample c).

(* ---- the computed hypotheses of the structure-level theorems (Proofs/SystemProofs.v:
   C01_solved_structure_has_equilibrated_interior_nodes, C02_system_gives_interior_equilibrium,
   C03_support_forces_in_global_equilibrium) on the implementation's own sliced, numbered structure:
   (numbers below the count, interior numbers private / unsupported / with a row, geometry and
   stiffness of every element sound) ---- *)
From Inkfem Require Import Proofs.SystemProofs.
Definition hyp_system (c : sys_case) : bool * bool * bool :=
  let bars := sy_bars c in
  let sup := supported_of (sy_nodes c) in
  (nums_below_b (sy_n c) bars, interior_private_fast (sy_n c) sup bars, forallb slices_sound_b bars).
(* alarm codes: 1 a number is not below the count; 2 an interior slice node's numbers are not its own *)
Definition hyp_alarms (c : sys_case) : list (nat * nat * nat) :=
  let h := hyp_system c in
  (if fst (fst h) then [] else [(1, 0, 0)%nat]) ++ (if snd (fst h) then [] else [(2, 0, 0)%nat]).

(* ---- C04: the statement of bar_equivalence evaluated on a case (a test of the theorem's
   statement on the bars the implementation ran, not a proof) ---- *)
From Inkfem Require Import Spec.Resultant.
Definition near (tol : Q) (a b : X) : bool :=
  nleb (nabs (nsub (fst a) (fst b))) (nmul (bq tol) (nadd (snd a) (snd b))).
Definition cmp_resultant (tol : Q) (weight : bool) (bi : nat) (b : bar Q) : list (nat * nat) :=
  let bx := bar_map xq b in
  let bw := if weight then with_own_weight bx else bx in
  let lhs := sum_about_start bw (slice_bar bw) in
  let rhs := resultant bw in
  (if near tol (t_fx lhs) (t_fx rhs) then [] else [(bi, 0%nat)]) ++
  (if near tol (t_fy lhs) (t_fy rhs) then [] else [(bi, 1%nat)]) ++
  (if near tol (t_mz lhs) (t_mz rhs) then [] else [(bi, 2%nat)]).
Definition cmp_resultants (tol : Q) (weight : bool) (bars : list (bar Q * list (pnode Q))) : list (nat * nat) :=
  flat_map (fun p => cmp_resultant tol weight (fst p) (fst (snd p))) (indexed bars).

(* ---- stage F: what solve derives from the solver's answer ---- *)
From Inkfem Require Import Model.Recover.

(* observed solution of one bar: displacement triples per node (global, local) and the four
   listed series *)
Record sol_obs := {
  so_gd : list (Q * tor Q); so_ld : list (Q * tor Q);
  so_ax : list (Q * Q); so_sh : list (Q * Q); so_bm : list (Q * Q); so_tf : list (Q * Q) }.

Record solve_case := {
  sv_bars : list (pbar Q);
  sv_u : list Q;                         (* the solver's answer, as the implementation saw it *)
  sv_eps : Q;                            (* maximum displacement error (merge epsilon) *)
  sv_obs : list sol_obs;                 (* per bar, in solution order *)
  sv_reactions : list (nat * tor Q)      (* (node index, reported reaction) *)
}.

Definition teq_x (a : X) (b : Q) : bool := nltb (nabs (nsub (fst a) (bq b))) (bq (1 # 10000000000)).

(* Go's listing of a series against the model's unmerged sequence of (is_trail, t, value):
   a trail value is listed unless it equals the last listed value within eps; whether it was
   merged is decided by the implementation on float values, so either outcome is accepted when
   the model's difference is within the comparison tolerance of eps.  Returns the number of
   the first model entry that does not fit, if any. *)
Fixpoint walk_series (tol : Q) (eps : X) (k : nat) (last : option X)
         (model : list (bool * X * X)) (obs : list (Q * Q)) : list nat :=
  match model with
  | [] => match obs with [] => [] | _ => [k] end
  | (is_trail, t, v) :: model' =>
    let here := match obs with (to, _) :: _ => teq_x t to | [] => false end in
    if is_trail then
      let band := match last with
                  | Some l => nmul (bq tol) (nadd (snd v) (snd l)) | None => n0 end in
      let diff := match last with Some l => nabs (nsub (fst v) (fst l)) | None => n0 end in
      if here then
        match obs with
        | (_, vo) :: obs' =>
          let may_list := match last with
                          | Some _ => nleb (nsub (fst eps) band) diff | None => true end in
          if agrees tol v vo && may_list then walk_series tol eps (S k) (Some v) model' obs' else [k]
        | [] => [k]
        end
      else
        match last with
        | Some _ => if nltb diff (nadd (fst eps) band) then walk_series tol eps (S k) last model' obs else [k]
        | None => [k]
        end
    else
      match obs with
      | (_, vo) :: obs' =>
        if here && agrees tol v vo then walk_series tol eps (S k) (Some v) model' obs' else [k]
      | [] => [k]
      end
  end.

(* the model's unmerged sequence for one of the four quantities *)
Fixpoint unmerged_from (b : bar X) (u : list X) (sel : q4 -> X) (na : pnode X) (da : dof3)
         (rest : list (pnode X * dof3)) : list (bool * X * X) :=
  match rest with
  | [] => []
  | (nb, db) :: rest' =>
    let r := slice_recover b u na nb da db in
    (true, pn_t na, sel (fst r)) :: (false, pn_t nb, sel (snd r)) :: unmerged_from b u sel nb db rest'
  end.
Definition unmerged (p : pbar X) (u : list X) (sel : q4 -> X) : list (bool * X * X) :=
  match combine (pb_nodes p) (pb_dofs p) with
  | [] => []
  | (na, da) :: rest => unmerged_from (pb_bar p) u sel na da rest
  end.

Definition cmp_displ (tol : Q) (bi code : nat) (m : list (X * tor X)) (o : list (Q * tor Q)) : list (nat * nat * nat) :=
  if negb (Nat.eqb (length m) (length o)) then [(bi, code, 999%nat)] else
  flat_map (fun p => let mm := fst (snd p) in let oo := snd (snd p) in
      if teq_x (fst mm) (fst oo) && agrees_tor tol (snd mm) (snd oo) then [] else [(bi, code, fst p)])
    (indexed (combine m o)).

(* mismatch codes: (bar, 1, node) global displacements; (bar, 2, node) local; (bar, 3..6, k)
   axial / shear / bending / top fibre at model entry k; (node, 7, component) reaction *)
Definition cmp_solution (tol : Q) (c : solve_case) : list (nat * nat * nat) :=
  let bars := map pbar_x (sv_bars c) in
  let u := map xq (sv_u c) in
  let eps := xq (sv_eps c) in
  flat_map (fun q => let bi := fst q in let p := fst (snd q) in let o := snd (snd q) in
      cmp_displ tol bi 1 (displ_global p u) (so_gd o) ++
      cmp_displ tol bi 2 (displ_local p u) (so_ld o) ++
      map (fun k => (bi, 3%nat, k)) (walk_series tol eps 0 None (unmerged p u q_ax) (so_ax o)) ++
      map (fun k => (bi, 4%nat, k)) (walk_series tol eps 0 None (unmerged p u q_sh) (so_sh o)) ++
      map (fun k => (bi, 5%nat, k)) (walk_series tol eps 0 None (unmerged p u q_bm) (so_bm o)) ++
      map (fun k => (bi, 6%nat, k)) (walk_series tol eps 0 None (unmerged p u q_tf) (so_tf o)))
    (indexed (combine bars (sv_obs c))) ++
  (if Nat.eqb (length bars) (length (sv_obs c)) then [] else [(length bars, 0%nat, 0%nat)]) ++
  flat_map (fun r => let m := reaction_at eps bars u (fst r) in
      (if agrees tol (t_fx m) (t_fx (snd r)) then [] else [(fst r, 7%nat, 0%nat)]) ++
      (if agrees tol (t_fy m) (t_fy (snd r)) then [] else [(fst r, 7%nat, 1%nat)]) ++
      (if agrees tol (t_mz m) (t_mz (snd r)) then [] else [(fst r, 7%nat, 2%nat)]))
    (sv_reactions c).

(* ---- stage E: the decision about the solver's answer ---- *)
Record accept_case := {
  ac_K : list (nat * nat * Q); ac_F : list Q;
  ac_u : list (option Q);               (* None = NaN / Inf *)
  ac_eps : Q;
  ac_accepted : bool                    (* the implementation went on to write results *)
}.
(* the model's verdict at the plain BigQ instance; the caller keeps residuals away from eps *)
Definition cmp_accept (c : accept_case) : list nat :=
  let K := map (fun e => (fst e, bq (snd e))) (ac_K c) in
  let f := map bq (ac_F c) in
  let o := map (fun x => match x with Some v => Some (bq v) | None => None end) (ac_u c) in
  match accept (bq (ac_eps c)) K f o with
  | Some _ => if ac_accepted c then [] else [1%nat]
  | None => if ac_accepted c then [2%nat] else []
  end.

(* ---- C19: the definition printed by `generate` vs the model ---- *)
From Inkfem Require Import Gen.GenReticular Model.Generate.
Record gen_case := {
  gc_spans : nat; gc_levels : nat; gc_span : Q; gc_height : Q; gc_load : Q;
  gc_nodes : list (nat * Q * Q * bool);            (* id, x, y, fully fixed (else free); sorted by id *)
  gc_free_ok : bool;                               (* every node that is not fully fixed is fully free *)
  gc_bars : list (nat * nat * nat * bool);         (* id, start, end, rigid links; in file order *)
  gc_loads : list (nat * dload Q)                  (* (bar id, distributed load), none concentrated *)
}.
Definition dload_eqb (a b : dload Q) : bool :=
  term_eqb (dl_term a) (dl_term b) && Bool.eqb (dl_local a) (dl_local b) && Qeq_bool (dl_t0 a) (dl_t0 b) &&
  Qeq_bool (dl_v0 a) (dl_v0 b) && Qeq_bool (dl_t1 a) (dl_t1 b) && Qeq_bool (dl_v1 a) (dl_v1 b).
Definition qclose (a b : Q) : bool := Qle_bool (Qabs (a - b)) ((1 # 1000000000000000) * (Qabs a + Qabs b)).
(* mismatch codes: 1 node count, 2 node k, 3 bar count, 4 bar k, 5 loads of bar id, 6 free nodes *)
Definition cmp_generate (c : gen_case) : list (nat * nat) :=
  let ns := gen_nodes (gc_spans c) (gc_levels c) (gc_span c) (gc_height c) in
  let bs := gen_bars (gc_spans c) (gc_levels c) in
  (if Nat.eqb (length ns) (length (gc_nodes c)) then [] else [(1%nat, length ns)]) ++
  flat_map (fun p => let m := fst (snd p) in let o := snd (snd p) in
      let '(oid, ox, oy, ofx) := o in
      if Nat.eqb (gn_id m) oid && qclose (gn_x m) ox && qclose (gn_y m) oy && Bool.eqb (gn_fixed m) ofx then [] else [(2%nat, fst p)])
    (indexed (combine ns (gc_nodes c))) ++
  (if gc_free_ok c then [] else [(6%nat, 0%nat)]) ++
  (if Nat.eqb (length bs) (length (gc_bars c)) then [] else [(3%nat, length bs)]) ++
  flat_map (fun p => let m := fst (snd p) in let o := snd (snd p) in
      let '(oid, o1, o2, orig) := o in
      if Nat.eqb (gb_id m) oid && Nat.eqb (gb_n1 m) o1 && Nat.eqb (gb_n2 m) o2 && Bool.eqb (gb_rigid m) orig then [] else [(4%nat, fst p)])
    (indexed (combine bs (gc_bars c))) ++
  flat_map (fun b =>
      let mine := filter (fun l => Nat.eqb (fst l) (gb_id b)) (gc_loads c) in
      if gb_loaded b then
        match mine with
        | [l] => if dload_eqb (snd l) (ret_load (gc_load c)) then [] else [(5%nat, gb_id b)]
        | _ => [(5%nat, gb_id b)]
        end
      else match mine with [] => [] | _ => [(5%nat, gb_id b)] end) bs ++
  (if Nat.eqb (length (gc_loads c)) (length (filter gb_loaded bs)) then [] else [(5%nat, 0%nat)]).

(* ---- stage A: the definition reader ---- *)
From Coq Require Import String.
From Inkfem Require Import Model.Regex Gen.GenRegex Model.Read.
Record o_bar := {
  ob_id : string; ob_n1 : string; ob_l1 : link; ob_n2 : string; ob_l2 : link;
  ob_mat : string; ob_matv : list Q; ob_sec : string; ob_secv : list Q;
  ob_cl : list (cload Q); ob_dl : list (dload Q) }.
Record read_case := {
  rc_text : string;
  rc_panic : nat;                                   (* 0 = parsed; otherwise the class of the panic message *)
  rc_major : nat; rc_minor : nat;
  rc_nodes : list (string * Q * Q * link * option (nat * nat * nat));
  rc_bars : list o_bar }.

Definition err_code (e : rerr) : nat :=
  match e with
  | EVersion => 1 | EUnknownHeader => 2 | ENode => 3 | EMaterial => 4 | ESection => 5 | ELoad => 6 | ETerm => 7
  | EBar => 8 | ENumber => 9 | ENoStart => 10 | ENoEnd => 11 | ENoSection => 12 | ENoMaterial => 13 | ELoadUnknownBar => 14
  end%nat.

(* a float64 the implementation parsed vs the exact decimal value of the text: correct rounding *)
Definition is_rounding_of (go exact : Q) : bool :=
  Qle_bool (Qabs (go - exact)) (Qabs exact * (1 # 9007199254740992) + (1 # 1000000000000000000) * (1 # 1000000000000000000) *
                                                                     (1 # 1000000000000000000) * (1 # 1000000000000000000)).
Definition all_round (go exact : list Q) : bool :=
  Nat.eqb (List.length go) (List.length exact) && forallb (fun p => is_rounding_of (fst p) (snd p)) (combine go exact).
Definition link_eqb (a b : link) : bool :=
  Bool.eqb (lk_dx a) (lk_dx b) && Bool.eqb (lk_dy a) (lk_dy b) && Bool.eqb (lk_rz a) (lk_rz b).
Definition dof_eqb (a b : option (nat * nat * nat)) : bool :=
  match a, b with
  | None, None => true
  | Some (x, y, z), Some (x', y', z') => Nat.eqb x x' && Nat.eqb y y' && Nat.eqb z z'
  | _, _ => false
  end.
Definition cload_round (go m : cload Q) : bool :=
  term_eqb (cl_term go) (cl_term m) && Bool.eqb (cl_local go) (cl_local m) &&
  is_rounding_of (cl_t go) (cl_t m) && is_rounding_of (cl_v go) (cl_v m).
Definition dload_round (go m : dload Q) : bool :=
  term_eqb (dl_term go) (dl_term m) && Bool.eqb (dl_local go) (dl_local m) &&
  is_rounding_of (dl_t0 go) (dl_t0 m) && is_rounding_of (dl_v0 go) (dl_v0 m) &&
  is_rounding_of (dl_t1 go) (dl_t1 m) && is_rounding_of (dl_v1 go) (dl_v1 m).
Definition list_all2 {A B} (f : A -> B -> bool) (a : list A) (b : list B) : bool :=
  Nat.eqb (List.length a) (List.length b) && forallb (fun p => f (fst p) (snd p)) (combine a b).

(* mismatch codes: (1, model class, observed class) verdict; (2, _, _) version; (3, k, _) node k (observed order);
   (4, count, _) node count; (5, k, field) bar k; (6, count, _) bar count *)
Definition cmp_read (c : read_case) : list (nat * nat * nat) :=
  match read_def (rc_text c) with
  | Err e => if Nat.eqb (err_code e) (rc_panic c) then [] else [(1, err_code e, rc_panic c)%nat]
  | Ok s =>
    if negb (Nat.eqb (rc_panic c) 0) then [(1, 0, rc_panic c)%nat] else
    (if Nat.eqb (st_major s) (rc_major c) && Nat.eqb (st_minor s) (rc_minor c) then [] else [(2, st_major s, st_minor s)%nat]) ++
    (if Nat.eqb (List.length (st_nodes s)) (List.length (rc_nodes c)) then [] else [(4, List.length (st_nodes s), 0)%nat]) ++
    flat_map (fun p => let '(id, x, y, lk, dof) := snd p in
        match lookup_by rn_id id (st_nodes s) with
        | Some n => if is_rounding_of x (rn_x n) && is_rounding_of y (rn_y n) && link_eqb lk (rn_c n) && dof_eqb dof (rn_dof n)
                    then [] else [(3, fst p, 1)%nat]
        | None => [(3, fst p, 0)%nat]
        end) (indexed (rc_nodes c)) ++
    (if Nat.eqb (List.length (st_bars s)) (List.length (rc_bars c)) then [] else [(6, List.length (st_bars s), 0)%nat]) ++
    flat_map (fun p => let m := fst (snd p) in let o := snd (snd p) in let b := lb_bar m in
        (if String.eqb (rb_id b) (ob_id o) && String.eqb (rb_n1 b) (ob_n1 o) && String.eqb (rb_n2 b) (ob_n2 o) &&
            link_eqb (rb_l1 b) (ob_l1 o) && link_eqb (rb_l2 b) (ob_l2 o) then [] else [(5, fst p, 1)%nat]) ++
        (if String.eqb (rm_name (lb_material m)) (ob_mat o) && all_round (ob_matv o) (rm_vals (lb_material m)) then [] else [(5, fst p, 2)%nat]) ++
        (if String.eqb (rs_name (lb_section m)) (ob_sec o) && all_round (ob_secv o) (rs_vals (lb_section m)) then [] else [(5, fst p, 3)%nat]) ++
        (if list_all2 cload_round (ob_cl o) (lb_cl m) then [] else [(5, fst p, 4)%nat]) ++
        (if list_all2 dload_round (ob_dl o) (lb_dl m) then [] else [(5, fst p, 5)%nat]))
      (indexed (combine (st_bars s) (rc_bars c)))
  end.

(* ---- stage P: the reader of preprocessed files ---- *)
From Inkfem Require Import Model.ReadPre.
Record o_pnode := { on_t : Q; on_x : Q; on_y : Q; on_ext : tor Q; on_left : tor Q; on_right : tor Q; on_dof : nat * nat * nat }.
Record pre_case := {
  pc_text : string;
  pc_panic : nat;
  pc_dofs : nat; pc_weight : bool;
  pc_nodes : list (string * Q * Q * link * option (nat * nat * nat));
  pc_bars : list (o_bar * list o_pnode) }.

Definition perr_code (e : perr) : nat :=
  match e with
  | PDef e' => err_code e' | PDofCount => 20 | POwnWeight => 21 | POrder => 22 | PLines => 23 | PNodeLine => 8 | PChecksum => 25
  end%nat.
Definition tor_round (go m : tor Q) : bool :=
  is_rounding_of (t_fx go) (t_fx m) && is_rounding_of (t_fy go) (t_fy m) && is_rounding_of (t_mz go) (t_mz m).
Definition pnode_round (o : o_pnode) (m : prnode) : bool :=
  is_rounding_of (on_t o) (pr_t m) && is_rounding_of (on_x o) (pr_x m) && is_rounding_of (on_y o) (pr_y m) &&
  tor_round (on_ext o) (pr_ext m) && tor_round (on_left o) (pr_left m) && tor_round (on_right o) (pr_right m) &&
  dof_eqb (Some (on_dof o)) (Some (pr_dof m)).

(* mismatch codes: (1, model, observed) verdict; (2, _, _) equation count / own weight flag; (3, k, _) node; (4, n, _) node count;
   (5, k, field) bar k: 1 header, 2 material, 3 section, 6 slice nodes; (6, n, _) bar count *)
Definition cmp_pre (c : pre_case) : list (nat * nat * nat) :=
  match read_pre (pc_text c) with
  | PErr e => if Nat.eqb (perr_code e) (pc_panic c) then [] else [(1, perr_code e, pc_panic c)%nat]
  | POk s =>
    if negb (Nat.eqb (pc_panic c) 0) then [(1, 0, pc_panic c)%nat] else
    (if Nat.eqb (ps_dofs s) (pc_dofs c) && Bool.eqb (ps_weight s) (pc_weight c) then [] else [(2, ps_dofs s, 0)%nat]) ++
    (if Nat.eqb (List.length (ps_nodes s)) (List.length (pc_nodes c)) then [] else [(4, List.length (ps_nodes s), 0)%nat]) ++
    flat_map (fun p => let '(id, x, y, lk, dof) := snd p in
        match lookup_by rn_id id (ps_nodes s) with
        | Some n => if is_rounding_of x (rn_x n) && is_rounding_of y (rn_y n) && link_eqb lk (rn_c n) && dof_eqb dof (rn_dof n)
                    then [] else [(3, fst p, 1)%nat]
        | None => [(3, fst p, 0)%nat]
        end) (indexed (pc_nodes c)) ++
    (if Nat.eqb (List.length (ps_bars s)) (List.length (pc_bars c)) then [] else [(6, List.length (ps_bars s), 0)%nat]) ++
    flat_map (fun p => let m := fst (snd p) in let o := fst (snd (snd p)) in let ons := snd (snd (snd p)) in
        let lb := pb_link m in let b := lb_bar lb in
        (if String.eqb (rb_id b) (ob_id o) && String.eqb (rb_n1 b) (ob_n1 o) && String.eqb (rb_n2 b) (ob_n2 o) &&
            link_eqb (rb_l1 b) (ob_l1 o) && link_eqb (rb_l2 b) (ob_l2 o) then [] else [(5, fst p, 1)%nat]) ++
        (if String.eqb (rm_name (lb_material lb)) (ob_mat o) && all_round (ob_matv o) (rm_vals (lb_material lb)) then [] else [(5, fst p, 2)%nat]) ++
        (if String.eqb (rs_name (lb_section lb)) (ob_sec o) && all_round (ob_secv o) (rs_vals (lb_section lb)) then [] else [(5, fst p, 3)%nat]) ++
        (if list_all2 pnode_round ons (pb_pnodes m) then [] else [(5, fst p, 6)%nat]))
      (indexed (combine (ps_bars s) (pc_bars c)))
  end.

(* ---- stage S: the events of a plotted SVG ---- *)
From Inkfem Require Import Model.Plot.
Definition zeqb := Z.eqb.
Definition event_eqb (a b : event) : bool :=
  match a, b with
  | EStart w h, EStart w' h' => Z.eqb w w' && Z.eqb h h'
  | EOpen s, EOpen s' => String.eqb s s'
  | EClose s, EClose s' => String.eqb s s'
  | EBarLine i a1 a2 a3 a4, EBarLine i' b1 b2 b3 b4 => String.eqb i i' && Z.eqb a1 b1 && Z.eqb a2 b2 && Z.eqb a3 b3 && Z.eqb a4 b4
  | ENodeCircle i x y, ENodeCircle i' x' y' => String.eqb i i' && Z.eqb x x' && Z.eqb y y'
  | ESupport k x y, ESupport k' x' y' => Nat.eqb k k' && Z.eqb x x' && Z.eqb y y'
  | ELoadGroup x y c s, ELoadGroup x' y' c' s' => Qle_bool (Qabs (x - x')) (1 # 500000) && Qle_bool (Qabs (y - y')) (1 # 500000) &&
      Qle_bool (Qabs (c - c')) (1 # 100000) && Qle_bool (Qabs (s - s')) (1 # 100000)
  | EPolygon a1 a2 a3 a4, EPolygon b1 b2 b3 b4 => Z.eqb a1 b1 && Z.eqb a2 b2 && Z.eqb a3 b3 && Z.eqb a4 b4
  | EEnd, EEnd => true
  | _, _ => false
  end.
Record plot_case := { pk_in : plot_in; pk_obs : list event }.
(* first position at which the observed events differ from the model's (and the two lengths) *)
Fixpoint first_diff (k : nat) (m o : list event) : list (nat * nat * nat) :=
  match m, o with
  | [], [] => []
  | x :: m', y :: o' => if event_eqb x y then first_diff (S k) m' o' else [(k, List.length m, List.length o)]
  | _, _ => [(k, List.length m, List.length o)]
  end.
Definition cmp_plot (c : plot_case) : list (nat * nat * nat) := first_diff 0 (plot_events (pk_in c)) (pk_obs c).

(* ---- stage G: the translated output templates, rendered by the model of text/template over what
   the template saw of the value, against the text Go wrote.  Mismatch code: (1, k, 0) with k the
   position of the first differing character ---- *)
From Coq Require Import String Ascii.
From Inkfem Require Import Model.Template.
Fixpoint first_diff_str (k : nat) (a b : string) : option nat :=
  match a, b with
  | EmptyString, EmptyString => None
  | String x a', String y b' => if Ascii.eqb x y then first_diff_str (S k) a' b' else Some k
  | _, _ => Some k
  end.
Definition cmp_render (t : list tnode) (data : ctxt) (text : string) : list (nat * nat * nat) :=
  match first_diff_str 0 (render t data) text with
  | None => []
  | Some k => [(1, k, 0)%nat]
  end.

(* the documented layout itself (Proofs/TemplateProofs.v spec_solution / spec_preprocess / spec_definition,
   proved equal to what the translated templates render) against the text Go wrote: code (2, k, 0) *)
From Inkfem Require Import Proofs.TemplateProofs.
Definition cmp_spec (spec text : string) : list (nat * nat * nat) :=
  match first_diff_str 0 spec text with
  | None => []
  | Some k => [(2, k, 0)%nat]
  end.
